#!/usr/bin/env python3
"""ir2c: translate (a closure of) an LLVM-14 module into C for CBMC's C front end.

usage: ir2c.py module.ll -o out.c --entry NAME [--entry NAME..] [--spec spec.json] [--scale W]

spec.json:
  {"replace": {"<mangled or demangled-regex>": "<function name | !noop | !havoc>" , ...},
   "keep_undefined": ["name", ...]}          # externals provided by rt/*.c

The translator fails loudly (exit 2) on anything it does not model.
"""
import sys, os, re, json, argparse, subprocess
sys.path.insert(0, os.path.dirname(os.path.abspath(__file__)))
from irparse import *

def sanitize(name):
    out = []
    for ch in name:
        if ch.isalnum() or ch == '_':
            out.append(ch)
        elif ch == '.':
            out.append('_d')
        else:
            out.append('_x%02x' % ord(ch))
    s = ''.join(out)
    if s and s[0].isdigit():
        s = '_' + s
    return s

INT_CT = [(8, 'uint8_t'), (16, 'uint16_t'), (32, 'uint32_t'), (64, 'uint64_t'), (128, 'unsigned __int128')]
SINT_CT = {8: 'int8_t', 16: 'int16_t', 32: 'int32_t', 64: 'int64_t', 128: '__int128'}

def int_store_bits(n):
    for b, _ in INT_CT:
        if n <= b:
            return b
    raise IRError('integer too wide: i%d' % n)

def uint_ct(n):
    return dict(INT_CT)[int_store_bits(n)]

def sint_ct(n):
    return SINT_CT[int_store_bits(n)]


class Emitter:
    def __init__(self, mod, scale=None):
        self.m = mod
        self.scale = scale
        self.struct_names = {}     # type key -> C struct tag
        self.type_decls = []       # ordered C text
        self.emitted_complete = set()
        self.forward = []
        self.typedefs = {}         # type -> name (arrays / function pointers)
        self.typedef_text = []
        self.struct_defs = []
        self.in_progress = set()
        self.used_globals = []
        self.used_globals_set = set()
        self.used_funcs = []
        self.used_funcs_set = set()
        self.replace = {}
        self.typeinfo_ids = {}
        self.extra_protos = {}
        self.global_fwd = []
        self.ambiguous_literals = set()
        self.entry_names = set()
        self.typed_alloc_enabled = False   # opt-in per harness (spec "typed_alloc": true): CBMC's byte-wise copies into typed pointer arrays proved unreliable

    # ------------------------------------------------------------------ scaling
    def nb(self, n):
        """narrow width for an iN value"""
        if self.scale and n in (32, 64, 128):
            return {32: self.scale, 64: 2 * self.scale, 128: 4 * self.scale}[n]
        return n

    def scale_const(self, n, v):
        """map an iN constant (python int, signed or unsigned reading) into the scaled world"""
        w = self.nb(n)
        if w == n:
            return v & ((1 << n) - 1)
        sv = v - (1 << n) if v >= (1 << (n - 1)) and v < (1 << n) else v
        W = self.scale
        # boundary constants of word (32) and lword (64) inside a wider type
        table = {}
        for (fw, tw) in ((32, W), (64, 2 * W), (128, 4 * W), (31, W - 1), (63, 2 * W - 1), (127, 4 * W - 1),
                         (33, W + 1), (65, 2 * W + 1), (30, W - 2), (62, 2 * W - 2)):
            for d in (-2, -1, 0, 1, 2):
                table[(1 << fw) + d] = (1 << tw) + d
                table[-(1 << fw) + d] = -(1 << tw) + d
        lim = 1 << (w - 1)   # literals that fit the scaled signed range of THIS type stay as they are
        if -lim <= sv <= lim - 1:
            r = sv
        elif lim <= sv <= 2 * lim - 1 and sv <= 7:
            # small literal that fits the scaled width only as an unsigned pattern: compiler-made selector codes
            # (switch/select on 4, 5, ..); kept bit-identical, recorded in the report as ambiguous
            r = sv
            self.ambiguous_literals.add((n, sv))
        elif sv in table:
            r = table[sv]
        else:
            raise IRError('unscalable constant i%d %d' % (n, sv))
        return r & ((1 << w) - 1)

    def scale_shift_const(self, n, v):
        w = self.nb(n)
        if w == n:
            return v
        W = self.scale
        t = {31: W - 1, 32: W, 63: 2 * W - 1, 64: 2 * W, 127: 4 * W - 1, 33: W + 1, 96: 3 * W, 95: 3*W-1}
        if v in t:
            return t[v]
        if v <= 2:
            return v
        # shifts that address bits relative to the top of the type (sign-bit extraction tricks): top-j -> scaled top-j
        for full, sc in ((32, W), (64, 2 * W), (128, 4 * W)):
            if n == full and full - 6 <= v < full and sc - (full - v) >= 0:
                return sc - (full - v)
        # a small amount far from the top of the type is an ordinary scaling shift (array indexing, multiplication by 2^k)
        if v < w and v < n - 8:
            return v
        raise IRError('unscalable shift amount %d' % v)

    # ------------------------------------------------------------------ types
    def resolve(self, t):
        while t[0] == 'named':
            if t[1] not in self.m.types:
                raise IRError('unknown type %r' % (t[1],))
            t = self.m.types[t[1]]
        return t

    def struct_tag(self, t):
        """t is ('named',n) or literal ('struct',..)"""
        if t in self.struct_names:
            return self.struct_names[t]
        if t[0] == 'named':
            tag = 'S_' + re.sub(r'[^A-Za-z0-9]+', '_', t[1]).strip('_')
            if len(tag) > 60:
                import hashlib
                tag = tag[:48] + '_' + hashlib.md5(t[1].encode()).hexdigest()[:8]
            while tag in self.struct_names.values():
                tag += '_'
        else:
            tag = 'L%d' % len(self.struct_names)
        self.struct_names[t] = tag
        self.forward.append('struct %s;' % tag)
        return tag

    def ct(self, t, complete=False):
        """C type name usable as `T x;`"""
        k = t[0]
        if k == 'void':
            return 'void'
        if k == 'int':
            return uint_ct(t[1])
        if k == 'fp':
            return {'float': 'float', 'double': 'double', 'x86_fp80': 'long double'}[t[1]]
        if k == 'ptr':
            p = t[1]
            if p[0] == 'func':
                return self.fp_typedef(p)
            if p[0] == 'void' or (p[0] == 'struct' and len(p[1]) == 0):
                return 'void*'
            if p[0] == 'named' and self.m.types.get(p[1], ('opaque',))[0] == 'opaque':
                self.struct_tag(p)
                return 'struct %s*' % self.struct_tag(p)
            return self.ct(p, False) + '*'
        if k == 'named':
            r = self.m.types.get(t[1])
            if r is None:
                raise IRError('unknown named type %s' % t[1])
            if r[0] == 'opaque':
                tag = self.struct_tag(t)
                return 'struct %s' % tag
            if r[0] != 'struct':
                return self.ct(r, complete)
            tag = self.struct_tag(t)
            if complete:
                self.complete_struct(t, r)
            return 'struct %s' % tag
        if k == 'struct':
            tag = self.struct_tag(t)
            if complete:
                self.complete_struct(t, t)
            return 'struct %s' % tag
        if k == 'array':
            if t in self.typedefs:
                if complete:
                    self.ct(t[2], True)
                return self.typedefs[t]
            el = self.ct(t[2], True)
            name = 'A%d' % len(self.typedefs)
            self.typedefs[t] = name
            # arrays need their element complete: emitted in the struct_defs stream to keep order
            self.struct_defs.append('typedef %s %s[%d];' % (el, name, t[1]))
            return name
        if k == 'func':
            raise IRError('bare function type as value type')
        if k == 'label' or k == 'metadata' or k == 'token':
            return 'int'
        if k == 'vector':
            raise IRError('vector type (vectorisation must be off)')
        raise IRError('ct: %r' % (t,))

    def fp_typedef(self, ft):
        if ft in self.typedefs:
            return self.typedefs[ft]
        name = 'FP%d' % len(self.typedefs)
        self.typedefs[ft] = name
        ret = self.ct(ft[1])
        ps = [self.ct(p) for p in ft[2]]
        if ft[3]:
            args = ', '.join(ps + ['...']) if ps else ''
        else:
            args = ', '.join(ps) if ps else 'void'
        self.typedef_text.append('typedef %s (*%s)(%s);' % (ret, name, args))
        return name

    def complete_struct(self, key, r):
        if key in self.emitted_complete:
            return
        if key in self.in_progress:
            raise IRError('recursive by-value struct')
        self.in_progress.add(key)
        tag = self.struct_tag(key)
        fields = []
        for i, ft in enumerate(r[1]):
            fields.append('  %s f%d;' % (self.ct(ft, True), i))
        if not fields:
            fields.append('  char _empty[0];')
        packed = ' __attribute__((packed))' if r[2] else ''
        self.struct_defs.append('struct%s %s {\n%s\n};' % (packed, tag, '\n'.join(fields)))
        self.in_progress.discard(key)
        self.emitted_complete.add(key)

    # type walking
    def elem_type(self, t, idx_const):
        r = self.resolve(t)
        if r[0] == 'struct':
            return r[1][idx_const]
        if r[0] == 'array':
            return r[2]
        raise IRError('elem_type of %r' % (r,))

    # sizes (x86-64 data layout) - needed for byte-GEP folding and scaled memcpy
    def size_align(self, t):
        r = self.resolve(t)
        k = r[0]
        if k == 'int':
            b = int_store_bits(r[1]) // 8
            return b, min(b, 16)
        if k == 'fp':
            return {'float': (4, 4), 'double': (8, 8), 'x86_fp80': (16, 16)}[r[1]]
        if k == 'ptr':
            return 8, 8
        if k == 'array':
            s, a = self.size_align(r[2])
            return s * r[1], a
        if k == 'struct':
            off = 0
            al = 1
            for f in r[1]:
                s, a = self.size_align(f)
                if r[2]:
                    a = 1
                off = (off + a - 1) // a * a
                off += s
                al = max(al, a)
            off = (off + al - 1) // al * al
            return off, al
        raise IRError('size of %r' % (r,))

    # ------------------------------------------------------------------ names
    def gname(self, name):
        return 'g_' + sanitize(name) if not re.fullmatch(r'[A-Za-z_][A-Za-z0-9_]*', name) else name

    def resolve_alias(self, name):
        seen = 0
        while name in self.m.aliases:
            t, tv = self.m.aliases[name]
            v = tv[1]
            while v[0] == 'cexpr' and v[1] == 'cast':
                v = v[3][1]
            if v[0] != 'global':
                raise IRError('alias to non-global')
            name = v[1]
            seen += 1
            if seen > 10:
                raise IRError('alias loop')
        return name

    def use_global(self, name):
        name = self.resolve_alias(name)
        if name in self.m.functions:
            if name in self.replace:
                tgt = self.replace[name]
                if not tgt.startswith('!'):
                    if tgt not in self.used_funcs_set and tgt in self.m.functions:
                        self.used_funcs_set.add(tgt)
                        self.used_funcs.append(tgt)
            if name not in self.used_funcs_set:
                self.used_funcs_set.add(name)
                self.used_funcs.append(name)
            return 'func'
        if name in self.m.globals:
            if name not in self.used_globals_set:
                self.used_globals_set.add(name)
                self.used_globals.append(name)
            return 'var'
        raise IRError('unknown global @%s' % name)

    # ------------------------------------------------------------------ constants / values
    def int_lit(self, n, v):
        bits = int_store_bits(n)
        v &= (1 << n) - 1
        if bits <= 32:
            return '((%s)%dU)' % (uint_ct(n), v)
        if bits == 64:
            return '((uint64_t)%dULL)' % v
        hi = v >> 64
        lo = v & ((1 << 64) - 1)
        if hi == 0:
            return '((unsigned __int128)%dULL)' % lo
        return '((((unsigned __int128)%dULL) << 64) | (unsigned __int128)%dULL)' % (hi, lo)

    def zero_of(self, t):
        r = self.resolve(t)
        if r[0] in ('int',):
            return self.int_lit(r[1], 0)
        if r[0] == 'fp':
            return '((%s)0)' % self.ct(r)
        if r[0] == 'ptr':
            return '((%s)0)' % self.ct(t)
        if r[0] in ('struct', 'array'):
            return '((%s){0})' % self.ct(t, True)
        raise IRError('zero_of %r' % (r,))

    def fp_lit(self, t, text):
        if text.startswith('0x'):
            if text[2] in 'KLMHR':
                raise IRError('long double constant')
            import struct
            d = struct.unpack('>d', bytes.fromhex(text[2:].rjust(16, '0')))[0]
            if d != d:
                return '((%s)__builtin_nan(""))' % self.ct(t)
            if d in (float('inf'), float('-inf')):
                return '((%s)%s__builtin_inf())' % (self.ct(t), '-' if d < 0 else '')
            return '((%s)%s)' % (self.ct(t), d.hex())
        return '((%s)%s)' % (self.ct(t), text)

    def cv(self, t, v, static=False):
        """C expression for typed value"""
        k = v[0]
        if k == 'local':
            return self.lname(v[1])
        if k == 'int':
            r = self.resolve(t)
            if r[0] == 'int':
                if self.scale and r[1] in (32, 64, 128):
                    return self.int_lit(r[1], self.scale_const(r[1], v[1]))
                return self.int_lit(r[1], v[1])
            if r[0] == 'fp':
                return '((%s)%d)' % (self.ct(r), v[1])
            raise IRError('int const of type %r' % (r,))
        if k == 'fp':
            return self.fp_lit(t, v[1])
        if k == 'null':
            return '((%s)0)' % self.ct(t)
        if k == 'undef' or k == 'zero':
            if static:
                r = self.resolve(t)
                if r[0] in ('struct', 'array'):
                    return '{0}'
            return self.zero_of(t)
        if k == 'global':
            name = self.resolve_alias(v[1])
            kind = self.use_global(name)
            if kind == 'func':
                f = self.m.functions[name]
                want = self.ct(t)
                return '((%s)&%s)' % (want, self.fname(name))
            g = self.m.globals[name]
            if self.is_rt_typeinfo(name) or name.startswith('_ZTVN10__cxxabiv1'):
                return '((%s)&%s)' % (self.ct(t), self.gname(name))
            want = self.ct(t)
            have = self.ct(('ptr', g.type))
            # CBMC 6.11 mis-resolves `cond ? (struct T*)(&arr) : (struct T*)(arr+k)` (address of a WHOLE array cast to
            # another pointer type); taking the address of the first scalar element instead is modelled correctly.
            rt_ = self.resolve(g.type)
            sub = ''
            while rt_[0] == 'array' and rt_[1] > 0:
                sub += '[0]'
                rt_ = self.resolve(rt_[2])
            if sub:
                return '((%s)&%s%s)' % (want, self.gname(name), sub)
            if want == have:
                return '(&%s)' % self.gname(name)
            return '((%s)&%s)' % (want, self.gname(name))
        if k == 'cstr':
            if static:
                return '{' + ','.join(str(b) for b in v[1]) + '}'
            raise IRError('cstr in expression')
        if k == 'agg':
            if static:
                return '{' + ', '.join(self.cv(et, ev, True) for et, ev in v[2]) + '}'
            r = self.resolve(t)
            if r[0] == 'struct':
                return '((%s){%s})' % (self.ct(t, True), ', '.join(self.cv(et, ev) for et, ev in v[2]))
            raise IRError('array aggregate in expression')
        if k == 'cexpr':
            return self.cexpr(t, v, static)
        raise IRError('cv: %r' % (v,))

    def cexpr(self, t, v, static):
        op = v[1]
        if op == 'gep':
            _, _, bt, base, idx = v
            return self.gep_expr(bt, base, idx, t)
        if op == 'cast':
            _, _, cop, src, dt = v
            return self.cast_expr(cop, src[0], self.cv(src[0], src[1]), dt)
        if op == 'bin':
            _, _, bop, a, b = v
            return self.bin_expr(bop, a[0], self.cv(a[0], a[1]), self.cv(b[0], b[1]), b[1])
        if op == 'icmp':
            _, _, pred, a, b = v
            return self.icmp_expr(pred, a[0], self.cv(a[0], a[1]), self.cv(b[0], b[1]))
        if op == 'select':
            _, _, c, a, b = v
            return '(%s ? %s : %s)' % (self.cv(c[0], c[1]), self.cv(a[0], a[1]), self.cv(b[0], b[1]))
        raise IRError('cexpr %r' % op)

    # ------------------------------------------------------------------ expression helpers
    def mask(self, n):
        return self.int_lit(n, (1 << self.nb(n)) - 1)

    def sx(self, n, e):
        """signed reading of an iN value stored zero-extended in uint; returns expr of signed C type"""
        w = self.nb(n)
        bits = int_store_bits(n)
        if w == bits:
            return '((%s)%s)' % (sint_ct(n), e)
        if self.scale and w != n:
            return '((%s)(IR2C_SBV(%d))(IR2C_UBV(%d))%s)' % (sint_ct(n), w, w, e)
        # odd width, unscaled: shift trick
        sh = bits - w
        return '((%s)((%s)(%s << %d)) >> %d)' % (sint_ct(n), sint_ct(n), e, sh, sh)

    def wrap(self, n, e):
        """reduce a C expression (computed in the storage type or wider) to the iN representation"""
        w = self.nb(n)
        bits = int_store_bits(n)
        if w == bits:
            return '((%s)(%s))' % (uint_ct(n), e)
        return '((%s)((%s) & %s))' % (uint_ct(n), e, self.mask(n))

    def work(self, n):
        """C type in which unsigned arithmetic of iN is carried out without int-promotion surprises"""
        bits = int_store_bits(n)
        return 'uint32_t' if bits < 32 else uint_ct(n)

    def bin_expr(self, op, t, a, b, bval=None):
        r = self.resolve(t)
        if r[0] == 'fp':
            cop = {'fadd': '+', 'fsub': '-', 'fmul': '*', 'fdiv': '/'}.get(op)
            if cop is None:
                raise IRError('fp op %s' % op)
            return '(%s %s %s)' % (a, cop, b)
        if r[0] != 'int':
            raise IRError('binop on %r' % (r,))
        n = r[1]
        w = self.nb(n)
        W = self.work(n)
        narrow = self.scale and w != n
        if op in ('add', 'sub', 'and', 'or', 'xor'):
            cop = {'add': '+', 'sub': '-', 'and': '&', 'or': '|', 'xor': '^'}[op]
            return self.wrap(n, '(%s)%s %s (%s)%s' % (W, a, cop, W, b))
        if op == 'mul':
            if narrow:
                ub = 'IR2C_UBV(%d)' % w
                return '((%s)(%s)((%s)%s * (%s)%s))' % (uint_ct(n), ub, ub, a, ub, b)
            return self.wrap(n, '(%s)%s * (%s)%s' % (W, a, W, b))
        if op in ('udiv', 'urem'):
            cop = '/' if op == 'udiv' else '%'
            if narrow:
                ub = 'IR2C_UBV(%d)' % w
                return '((%s)(%s)((%s)%s %s (%s)%s))' % (uint_ct(n), ub, ub, a, cop, ub, b)
            return self.wrap(n, '(%s)%s %s (%s)%s' % (W, a, cop, W, b))
        if op in ('sdiv', 'srem'):
            cop = '/' if op == 'sdiv' else '%'
            if narrow:
                sb = 'IR2C_SBV(%d)' % w
                ub = 'IR2C_UBV(%d)' % w
                return '((%s)(%s)((%s)(%s)%s %s (%s)(%s)%s))' % (uint_ct(n), ub, sb, ub, a, cop, sb, ub, b)
            # guard INT_MIN / -1 (caught by the source-level ubsan trap; keep the C defined)
            return self.wrap(n, 'ir2c_s%s_%d(%s, %s)' % ('div' if op == 'sdiv' else 'rem', int_store_bits(n), self.sx(n, a), self.sx(n, b)))
        if op in ('shl', 'lshr', 'ashr'):
            amt = b
            if b is None:
                amt = self.int_lit(n, self.scale_shift_const(n, bval[1]) if w != n else bval[1])
            if op == 'shl':
                e = '(%s < %d ? (%s)%s << %s : 0)' % (amt, w, W, a, amt)
                return self.wrap(n, e)
            if op == 'lshr':
                e = '(%s < %d ? (%s)%s >> %s : 0)' % (amt, w, W, a, amt)
                return self.wrap(n, e)
            sa = self.sx(n, a)
            e = '(%s < %d ? %s >> %s : (%s < 0 ? -1 : 0))' % (amt, w, sa, amt, sa)
            return self.wrap(n, e)
        raise IRError('binop %s' % op)

    def icmp_expr(self, pred, t, a, b):
        r = self.resolve(t)
        cops = {'eq': '==', 'ne': '!=', 'ugt': '>', 'uge': '>=', 'ult': '<', 'ule': '<=',
                'sgt': '>', 'sge': '>=', 'slt': '<', 'sle': '<='}
        if r[0] == 'ptr':
            if pred in ('eq', 'ne'):
                return '((uint8_t)((void*)%s %s (void*)%s))' % (a, cops[pred], b)
            if pred[0] == 'u':
                return '((uint8_t)((uintptr_t)%s %s (uintptr_t)%s))' % (a, cops[pred], b)
            return '((uint8_t)((intptr_t)%s %s (intptr_t)%s))' % (a, cops[pred], b)
        if r[0] != 'int':
            raise IRError('icmp on %r' % (r,))
        n = r[1]
        if pred[0] == 's':
            return '((uint8_t)(%s %s %s))' % (self.sx(n, a), cops[pred], self.sx(n, b))
        return '((uint8_t)(%s %s %s))' % (a, cops[pred], b)

    def cast_expr(self, cop, st, e, dt):
        rs = self.resolve(st)
        rd = self.resolve(dt)
        if cop == 'bitcast':
            if rs[0] == 'ptr' and rd[0] == 'ptr':
                return '((%s)%s)' % (self.ct(dt), e)
            if rs[0] == 'int' and rd[0] == 'fp' or rs[0] == 'fp' and rd[0] == 'int':
                return 'ir2c_bits_%s_to_%s(%s)' % (self.ct(rs).replace(' ', '_'), self.ct(rd).replace(' ', '_'), e)
            if rs == rd:
                return e
            raise IRError('bitcast %r -> %r' % (rs, rd))
        if cop == 'trunc':
            return self.wrap(rd[1], '(%s)%s' % (uint_ct(rd[1]), e))
        if cop == 'zext':
            ex = '((%s)%s)' % (uint_ct(rd[1]), e)
            if self.scale and self.nb(rd[1]) != rd[1] and self.nb(rs[1]) == rs[1] and rs[1] > 1:
                return 'ir2c_scale_fit_%d(%s, %s)' % (int_store_bits(rd[1]), ex, self.mask(rd[1]))
            return ex
        if cop == 'sext':
            ex = self.wrap(rd[1], '(%s)%s' % (sint_ct(rd[1]), self.sx(rs[1], e)))
            if self.scale and self.nb(rd[1]) != rd[1] and self.nb(rs[1]) == rs[1] and rs[1] > 1:
                return 'ir2c_scale_sfit_%d((%s)%s, %d)' % (int_store_bits(rd[1]), sint_ct(rd[1]), self.sx(rs[1], e), self.nb(rd[1]))
            return ex
        if cop == 'ptrtoint':
            return self.wrap(rd[1], '(uintptr_t)%s' % e)
        if cop == 'inttoptr':
            if self.scale:
                raise IRError('inttoptr in scaled mode')
            return '((%s)(uintptr_t)%s)' % (self.ct(dt), e)
        if cop in ('sitofp',):
            return '((%s)%s)' % (self.ct(rd), self.sx(rs[1], e))
        if cop in ('uitofp',):
            return '((%s)%s)' % (self.ct(rd), e)
        if cop == 'fptosi':
            return self.wrap(rd[1], '(%s)%s' % (sint_ct(rd[1]), e))
        if cop == 'fptoui':
            return self.wrap(rd[1], '(%s)%s' % (uint_ct(rd[1]), e))
        if cop in ('fpext', 'fptrunc'):
            return '((%s)%s)' % (self.ct(rd), e)
        raise IRError('cast %s' % cop)

    def gep_expr(self, bt, base, idx, result_type=None):
        """returns C expression of pointer type"""
        cur_t = bt
        e = self.cv(base[0], base[1])
        first = True
        for (it, iv) in idx:
            if first:
                first = False
                ie = self.index_expr(it, iv)
                if ie != '0':
                    rb = self.resolve(cur_t)
                    if rb[0] == 'void' or (rb[0] == 'struct' and not rb[1]) or (rb[0] == 'named'):
                        raise IRError('gep over opaque')
                    self.ct(cur_t, True)
                    e = '(%s + %s)' % (e, ie)
                continue
            r = self.resolve(cur_t)
            if r[0] == 'struct':
                if iv[0] != 'int':
                    raise IRError('non-constant struct index')
                self.ct(cur_t, True)
                e = '(&(%s)->f%d)' % (e, iv[1])
                cur_t = r[1][iv[1]]
            elif r[0] == 'array':
                self.ct(cur_t, True)
                ie = self.index_expr(it, iv)
                elt = self.ct(('ptr', r[2]))
                if ie == '0':
                    e = '((%s)%s)' % (elt, e)
                else:
                    e = '(((%s)%s) + %s)' % (elt, e, ie)
                cur_t = r[2]
            else:
                raise IRError('gep into %r' % (r,))
        return e

    def gep_result_type(self, bt, idx):
        cur = bt
        for k, (it, iv) in enumerate(idx):
            if k == 0:
                continue
            r = self.resolve(cur)
            if r[0] == 'struct':
                cur = r[1][iv[1]]
            elif r[0] == 'array':
                cur = r[2]
            else:
                raise IRError('gep into %r' % (r,))
        return ('ptr', cur)

    def index_expr(self, it, iv):
        if iv[0] == 'int':
            v = iv[1]
            return str(v)
        n = self.resolve(it)[1]
        return self.sx(n, self.cv(it, iv)) if True else None

    # ------------------------------------------------------------------ functions
    def fname(self, name):
        if name in self.entry_names:
            return self.gname(name) + '__body'
        return self.gname(name)

    def lname(self, name):
        return self.cur_locals[name]

    def is_rt_typeinfo(self, name):
        g = self.m.globals.get(name)
        return g is not None and g.external and name.startswith('_ZTI')

    def proto(self, f, name=None):
        ps = []
        for i, (t, n, a) in enumerate(f.params):
            ps.append('%s a%d' % (self.ct(t, self.resolve(t)[0] != 'ptr'), i))
        if f.vararg:
            ps.append('...')
        args = ', '.join(ps) if ps else 'void'
        rt = self.ct(f.ret, True) if f.ret != ('void',) else 'void'
        return '%s %s(%s)' % (rt, name or self.fname(f.name), args)

    def emit_function(self, f):
        blocks = self.layout(parse_body(f))
        self.cur_f = f
        # locals
        loc = {}
        used = set()

        def mk(n):
            s = 'v' + sanitize(n) if n[0].isdigit() else 'v_' + sanitize(n)
            while s in used:
                s += '_'
            used.add(s)
            loc[n] = s
            return s

        self.cur_locals = loc
        decls = []
        for i, (t, n, a) in enumerate(f.params):
            mk(n)
        types = {}
        for (t, n, a) in f.params:
            types[n] = t
        # result types
        for label, ins in blocks:
            for I in ins:
                if I['res'] is None:
                    continue
                op = I['op']
                if op in ('icmp', 'fcmp'):
                    rt = ('int', 1)
                elif op == 'getelementptr':
                    rt = self.gep_result_type(I['bt'], I['idx'])
                elif op == 'extractvalue':
                    cur = I['agg'][0]
                    for ix in I['idx']:
                        cur = self.elem_type(cur, ix)
                    rt = cur
                else:
                    rt = I.get('type')
                if rt is None:
                    raise IRError('no result type for %r' % op)
                types[I['res']] = rt
                mk(I['res'])
                I['rtype'] = rt
        self.cur_types = types
        # typed allocation: operator new(C) whose result is bitcast to T* with sizeof(T) == C becomes malloc(sizeof(T)),
        # so that CBMC sees a typed (field-sensitive) object instead of a byte array
        self.typed_alloc = {}
        alloc_res = {}
        scaled_by = {}      # local -> (factor, count operand) for  %m = mul i64 %n, C  /  shl i64 %n, k
        for label, ins in blocks:
            for I in ins:
                if I['res'] is not None and I['op'] in ('mul', 'shl') and I['b'][0] == 'int' and I['a'][0] == 'local' and self.resolve(I['type']) == ('int', 64):
                    scaled_by[I['res']] = ((I['b'][1] if I['op'] == 'mul' else (1 << I['b'][1])), I['a'])
        for label, ins in blocks:
            for I in ins:
                if I['op'] in ('call', 'invoke') and I['res'] is not None and I['callee'][0] == 'global' and I['callee'][1] in ('_Znwm', '_Znam', 'malloc') \
                        and len(I['args']) == 1:
                    av = I['args'][0][1]
                    if av[0] == 'int':
                        alloc_res[I['res']] = av[1]
                    elif av[0] == 'local' and av[1] in scaled_by:
                        alloc_res[I['res']] = scaled_by[av[1]]
        if alloc_res and self.typed_alloc_enabled:
            for label, ins in blocks:
                for I in ins:
                    if I['op'] == 'cast' and I['cast'] == 'bitcast' and I['src'][1][0] == 'local' and I['src'][1][1] in alloc_res \
                            and I['src'][1][1] not in self.typed_alloc:
                        dt = I['type']
                        if dt[0] == 'ptr' and (dt[1][0] in ('named', 'struct') or (isinstance(alloc_res[I['src'][1][1]], tuple) and dt[1][0] in ('ptr', 'int'))):
                            try:
                                sz = self.size_align(dt[1])[0]
                            except IRError:
                                continue
                            want = alloc_res[I['src'][1][1]]
                            if isinstance(want, tuple):
                                if sz == want[0] and sz > 0:
                                    self.typed_alloc[I['src'][1][1]] = ('ARRAYOF', dt[1], want[1])     # array of count elements
                            elif sz == want and sz > 0:
                                self.typed_alloc[I['src'][1][1]] = dt[1]
        labels = {}
        for label, ins in blocks:
            labels[label] = 'L_' + sanitize(label)
        self.cur_labels = labels
        # phi map: for each block, list of (res, type, inc)
        phis = {}
        for label, ins in blocks:
            phis[label] = [I for I in ins if I['op'] == 'phi']
        self.cur_phis = phis
        # blocks that only trap (clang merges all checks of one kind into one such block per function): they are
        # emitted inline at every branch to them, which spares CBMC a state merge per incoming edge
        self.cur_trapblocks = {}
        for label, ins in blocks:
            if (len(ins) == 2 and ins[0]['op'] == 'call' and ins[0]['callee'][0] == 'global'
                    and ins[0]['callee'][1] in ('llvm.ubsantrap', 'llvm.trap') and ins[1]['op'] == 'unreachable'):
                self.cur_trapblocks[label] = ins
        body = []
        zero_ret = 'return;' if f.ret == ('void',) else 'return %s;' % self.zero_of(f.ret)
        self.zero_ret = zero_ret
        allocas = []
        for bi, (label, ins) in enumerate(blocks):
            body.append('%s: ;' % labels[label])
            for I in ins:
                self.emit_instr(I, label, body, allocas)
        out = []
        out.append(self.proto(f) + ' {')
        for i, (t, n, a) in enumerate(f.params):
            out.append('  %s %s = a%d;' % (self.ct(t), loc[n], i))
            if 'byval' in a:
                bt = a['byval']
                out.append('  %s %s_byval = *%s; %s = &%s_byval;' % (self.ct(bt, True), loc[n], loc[n], loc[n], loc[n]))
        for label, ins in blocks:
            for I in ins:
                if I['res'] is not None:
                    out.append('  %s %s;' % (self.ct(I['rtype'], True), loc[I['res']]))
        out.extend('  ' + a for a in allocas)
        out.extend('  ' + b for b in body)
        out.append('}')
        return '\n'.join(out)

    def layout(self, blocks):
        """reverse post-order: every textual backward jump is then a real loop back edge (CBMC counts
        unwindings per backward goto, so LLVM's own block order can defeat --unwind)"""
        succ = {}
        for label, ins in blocks:
            t = ins[-1]
            op = t['op']
            if op == 'br':
                s_ = [t['dest']] if t['cond'] is None else [t['t'], t['f']]
            elif op == 'switch':
                s_ = [t['default']] + [lab for _, lab in t['cases']]
            elif op == 'invoke':
                s_ = [t['ok'], t['lpad']]
            else:
                s_ = []
            succ[label] = s_
        entry = blocks[0][0]
        order = []
        seen = set()
        # iterative DFS, successors visited in reverse so that the first successor comes first in RPO
        stack = [(entry, iter(reversed(succ[entry])))]
        seen.add(entry)
        while stack:
            node, it = stack[-1]
            adv = False
            for n in it:
                if n not in seen:
                    seen.add(n)
                    stack.append((n, iter(reversed(succ[n]))))
                    adv = True
                    break
            if not adv:
                order.append(node)
                stack.pop()
        order.reverse()
        bmap = dict(blocks)
        out = [(l, bmap[l]) for l in order]
        # unreachable blocks are dropped (phis never name them as live predecessors on any executed edge)
        return out

    def edge(self, frm, to, body):
        """phi copies + goto"""
        if to in self.cur_trapblocks:
            for I in self.cur_trapblocks[to]:
                self.emit_instr(I, to, body, None)
            return
        ph = self.cur_phis[to]
        if ph:
            vals = []
            for I in ph:
                for (v, lab) in I['inc']:
                    if lab == frm:
                        vals.append((I, v))
                        break
                else:
                    raise IRError('phi without incoming for edge %s->%s' % (frm, to))
            phinames = set(I['res'] for I in ph)
            need_tmp = any(v[0] == 'local' and v[1] in phinames for (I, v) in vals)
            if need_tmp and len(vals) > 1:
                body.append('{')
                for k, (I, v) in enumerate(vals):
                    body.append('  %s t%d = %s;' % (self.ct(I['type'], True), k, self.cv(I['type'], v)))
                for k, (I, v) in enumerate(vals):
                    body.append('  %s = t%d;' % (self.lname(I['res']), k))
                body.append('}')
            else:
                for (I, v) in vals:
                    body.append('%s = %s;' % (self.lname(I['res']), self.cv(I['type'], v)))
        body.append('goto %s;' % self.cur_labels[to])

    def emit_instr(self, I, label, body, allocas):
        op = I['op']
        res = self.lname(I['res']) if I['res'] is not None else None
        if op == 'phi':
            return
        if op in BINOPS:
            if op in ('shl', 'lshr', 'ashr') and I['b'][0] == 'int' and self.scale:
                bexp = None     # constant shift amounts are rescaled inside bin_expr
            else:
                bexp = self.cv(I['type'], I['b'])
            body.append('%s = %s;' % (res, self.bin_expr(op, I['type'], self.cv(I['type'], I['a']), bexp, I['b'])))
            return
        if op == 'fneg':
            body.append('%s = -%s;' % (res, self.cv(I['type'], I['a'])))
            return
        if op == 'cast':
            st, sv = I['src']
            body.append('%s = %s;' % (res, self.cast_expr(I['cast'], st, self.cv(st, sv), I['type'])))
            return
        if op == 'icmp':
            body.append('%s = %s;' % (res, self.icmp_expr(I['pred'], I['type'], self.cv(I['type'], I['a']), self.cv(I['type'], I['b']))))
            return
        if op == 'fcmp':
            a = self.cv(I['type'], I['a'])
            b = self.cv(I['type'], I['b'])
            pred = I['pred']
            base = {'oeq': '==', 'ogt': '>', 'oge': '>=', 'olt': '<', 'ole': '<=', 'one': '!=',
                    'ueq': '==', 'ugt': '>', 'uge': '>=', 'ult': '<', 'ule': '<=', 'une': '!='}
            if pred in ('true', 'false'):
                e = '1' if pred == 'true' else '0'
            elif pred == 'ord':
                e = '(%s == %s && %s == %s)' % (a, a, b, b)
            elif pred == 'uno':
                e = '(%s != %s || %s != %s)' % (a, a, b, b)
            elif pred[0] == 'o':
                if pred == 'one':
                    e = '(%s == %s && %s == %s && %s != %s)' % (a, a, b, b, a, b)
                else:
                    e = '(%s %s %s)' % (a, base[pred], b)
            else:
                if pred == 'une':
                    e = '(%s != %s)' % (a, b)
                else:
                    e = '(%s != %s || %s != %s || %s %s %s)' % (a, a, b, b, a, base[pred], b)
            body.append('%s = (uint8_t)%s;' % (res, e))
            return
        if op == 'select':
            c = self.cv(*I['c'])
            body.append('%s = %s ? %s : %s;' % (res, c, self.cv(*I['a']), self.cv(*I['b'])))
            return
        if op == 'freeze':
            body.append('%s = %s;' % (res, self.cv(I['type'], I['a'])))
            return
        if op == 'alloca':
            et = I['elem']
            if I['count'] is not None:
                cnt = I['count']
                if cnt[1][0] != 'int':
                    raise IRError('dynamic alloca')
                allocas.append('%s %s_mem[%d]%s;' % (self.ct(et, True), res, cnt[1][1], ' = {0}' if getattr(self, 'zero_allocas', False) else ''))
                body.append('%s = %s_mem;' % (res, res))
            else:
                allocas.append('%s %s_mem%s;' % (self.ct(et, True), res, ' = {0}' if getattr(self, 'zero_allocas', False) else ''))
                body.append('%s = &%s_mem;' % (res, res))
            return
        if op == 'load':
            t = I['type']
            r = self.resolve(t)
            p = self.cv(*I['ptr'])
            if r[0] == 'int' and r[1] in (24, 40, 48, 56) and not self.scale:
                # byte-multiple odd width (coerced small structs such as PtAsgn = i40): little-endian pieces of 4/2/1 bytes
                parts, off, left = [], 0, r[1] // 8
                for sz in (4, 2, 1):
                    while left >= sz:
                        parts.append('((%s)*(uint%d_t *)((uint8_t *)%s + %d) << %d)' % (uint_ct(r[1]), 8 * sz, p, off, 8 * off))
                        off += sz; left -= sz
                body.append('%s = (%s);' % (res, ' | '.join(parts)))
                return
            if r[0] == 'int' and r[1] not in (1, 8, 16, 32, 64, 128):
                raise IRError('load of i%d' % r[1])
            self.ct(t, True)
            e = '*%s' % p
            if r[0] == 'int' and (r[1] == 1 or (self.scale and self.nb(r[1]) != r[1])):
                e = self.wrap(r[1], e)
            body.append('%s = %s;' % (res, e))
            return
        if op == 'store':
            t, v = I['val']
            r = self.resolve(t)
            if r[0] == 'int' and r[1] in (24, 40, 48, 56) and not self.scale:
                pp, vv, off, left = self.cv(*I['ptr']), self.cv(t, v), 0, r[1] // 8
                for sz in (4, 2, 1):
                    while left >= sz:
                        body.append('*(uint%d_t *)((uint8_t *)%s + %d) = (uint%d_t)((%s)(%s) >> %d);' % (8 * sz, pp, off, 8 * sz, uint_ct(r[1]), vv, 8 * off))
                        off += sz; left -= sz
                return
            if r[0] == 'int' and r[1] not in (1, 8, 16, 32, 64, 128):
                raise IRError('store of i%d' % r[1])
            if r[0] == 'array':
                raise IRError('store of array value')
            self.ct(t, True)
            body.append('*%s = %s;' % (self.cv(*I['ptr']), self.cv(t, v)))
            return
        if op == 'getelementptr':
            body.append('%s = %s;' % (res, self.gep_expr(I['bt'], I['base'], I['idx'])))
            return
        if op == 'extractvalue':
            e = self.cv(*I['agg'])
            cur = I['agg'][0]
            for ix in I['idx']:
                r = self.resolve(cur)
                if r[0] != 'struct':
                    raise IRError('extractvalue from array')
                e += '.f%d' % ix
                cur = r[1][ix]
            body.append('%s = %s;' % (res, e))
            return
        if op == 'insertvalue':
            body.append('%s = %s;' % (res, self.cv(*I['agg'])))
            e = res
            cur = I['agg'][0]
            for ix in I['idx']:
                r = self.resolve(cur)
                if r[0] != 'struct':
                    raise IRError('insertvalue into array')
                e += '.f%d' % ix
                cur = r[1][ix]
            body.append('%s = %s;' % (e, self.cv(*I['val'])))
            return
        if op == 'call' or op == 'invoke':
            self.emit_call(I, label, body)
            return
        if op == 'landingpad':
            # exception in flight -> caught by this pad
            self.ct(I['type'], True)
            body.append('%s.f0 = (uint8_t*)ir2c_exc_obj; ir2c_exc_flag = 0;' % res)
            sel = []
            for kind, (ct_, cvv) in I['clauses']:
                if kind == 'catch':
                    if cvv[0] == 'null':
                        sel.append('if (1) %s.f1 = 1; else' % res)
                    else:
                        tid = self.typeinfo_id(cvv)
                        sel.append('if (ir2c_exc_match(ir2c_exc_obj, (void*)%s)) %s.f1 = %d; else' % (self.cv(ct_, cvv), res, tid))
                else:
                    fv = cvv
                    if fv[0] == 'zero' or (fv[0] == 'agg' and not fv[2]):
                        # empty filter: nothing may pass -> std::terminate / unexpected
                        sel.append('if (1) { __CPROVER_assert(0, "exception violates empty filter (noexcept)"); %s.f1 = 0; } else' % res)
                    else:
                        raise IRError('non-empty filter clause')
            body.append(' '.join(sel) + ' %s.f1 = 0;' % res)
            if not I['cleanup'] and not any(k == 'catch' and c[1][0] == 'null' for k, c in I['clauses']):
                # no cleanup and no match: real unwinder would not stop here; continue unwinding
                body.append('if (%s.f1 == 0) { ir2c_exc_flag = 1; %s }' % (res, self.zero_ret))
            return
        if op == 'resume':
            body.append('ir2c_exc_obj = (void*)(%s).f0; ir2c_exc_flag = 1; %s' % (self.cv(*I['val']), self.zero_ret))
            return
        if op == 'ret':
            if I['val'] is None:
                body.append('return;')
            else:
                body.append('return %s;' % self.cv(*I['val']))
            return
        if op == 'br':
            if I['cond'] is None:
                self.edge(label, I['dest'], body)
            else:
                body.append('if (%s) {' % self.cv(*I['cond']))
                self.edge(label, I['t'], body)
                body.append('} else {')
                self.edge(label, I['f'], body)
                body.append('}')
            return
        if op == 'switch':
            t, v = I['val']
            body.append('switch (%s) {' % self.cv(t, v))
            seen = set()
            for (ct_, cvv), lab in I['cases']:
                body.append('case %s: {' % self.cv(ct_, cvv))
                self.edge(label, lab, body)
                body.append('}')
            body.append('default: {')
            self.edge(label, I['default'], body)
            body.append('} }')
            return
        if op == 'unreachable':
            body.append('__CPROVER_assume(0); %s' % self.zero_ret)
            return
        if op == 'fence':
            body.append('ir2c_fence();')
            return
        if op == 'atomicrmw':
            t, v = I['val']
            p = self.cv(*I['ptr'])
            n = self.resolve(t)[1]
            body.append('ir2c_atomic_begin(); %s = *%s;' % (res, p))
            rmw = I['rmw']
            ops = {'add': '+', 'sub': '-', 'and': '&', 'or': '|', 'xor': '^'}
            if rmw == 'xchg':
                body.append('*%s = %s;' % (p, self.cv(t, v)))
            elif rmw in ops:
                body.append('*%s = %s;' % (p, self.wrap(n, '(%s)%s %s (%s)%s' % (self.work(n), res, ops[rmw], self.work(n), self.cv(t, v)))))
            else:
                raise IRError('atomicrmw %s' % rmw)
            body.append('ir2c_atomic_end();')
            return
        if op == 'cmpxchg':
            p = self.cv(*I['ptr'])
            self.ct(I['type'], True)
            body.append('ir2c_atomic_begin(); %s.f0 = *%s; %s.f1 = (%s.f0 == %s); if (%s.f1) *%s = %s; ir2c_atomic_end();' % (
                res, p, res, res, self.cv(*I['cmp']), res, p, self.cv(*I['new'])))
            return
        raise IRError('emit: unsupported instruction %s' % op)

    def typeinfo_id(self, v):
        while v[0] == 'cexpr' and v[1] == 'cast':
            v = v[3][1]
        if v[0] != 'global':
            raise IRError('typeinfo operand %r' % (v,))
        name = v[1]
        if name not in self.typeinfo_ids:
            self.typeinfo_ids[name] = len(self.typeinfo_ids) + 2
        return self.typeinfo_ids[name]

    def after_call(self, I, label, body, may_throw):
        op = I['op']
        if op == 'invoke':
            if may_throw:
                body.append('if (ir2c_exc_flag) {')
                self.edge(label, I['lpad'], body)
                body.append('}')
            self.edge(label, I['ok'], body)
        else:
            if may_throw:
                body.append('if (ir2c_exc_flag) %s' % self.zero_ret)

    def emit_call(self, I, label, body):
        callee = I['callee']
        res = self.lname(I['res']) if I['res'] is not None else None
        args = I['args']
        cname = None
        cv_ = callee
        if cv_[0] == 'global':
            cname = self.resolve_alias(cv_[1])
        if cname and cname.startswith('llvm.'):
            self.emit_intrinsic(I, cname, res, args, body)
            self.after_call(I, label, body, False)
            return
        if cname in ('__CPROVER_assume', '__CPROVER_assert', '__CPROVER_cover'):
            c = self.cv(args[0][0], args[0][1])
            if cname == '__CPROVER_assert':
                msg = self.const_string(args[1][1])
                body.append('__CPROVER_assert(%s, "%s");' % (c, msg.replace('\\', '\\\\').replace('"', '\\"')))
            else:
                body.append('%s(%s);' % (cname, c))
            self.after_call(I, label, body, False)
            return
        if cname in ('nondet_u8', 'nondet_u16', 'nondet_u32', 'nondet_u64'):
            w = cname[8:]
            nw = int(w)
            if self.scale and self.nb(nw) != nw:
                # scaled mode: a symbolic word/lword input ranges over the scaled width only
                body.append('ir2c_in_u%s = %s() & %s; %s = ir2c_in_u%s;' % (w, cname, self.mask(nw), res if res else 'ir2c_in_u' + w, w))
            else:
                body.append('ir2c_in_u%s = %s(); %s = ir2c_in_u%s;' % (w, cname, res if res else 'ir2c_in_u' + w, w))
            self.after_call(I, label, body, False)
            return
        if cname in ('_Znwm', '_Znam', 'malloc') and I['res'] is not None and I['res'] in getattr(self, 'typed_alloc', {}) and cname not in self.replace:
            tt = self.typed_alloc[I['res']]
            if tt[0] == 'ARRAYOF':
                body.append('%s = (uint8_t*)malloc(sizeof(%s) * %s); __CPROVER_assume(%s != 0);' % (res, self.ct(tt[1], True), self.cv(('int', 64), tt[2]), res))
            else:
                body.append('%s = (uint8_t*)malloc(sizeof(%s)); __CPROVER_assume(%s != 0);' % (res, self.ct(tt, True), res))
            self.after_call(I, label, body, False)
            return
        argv = [self.cv(t, v) for (t, v, a) in args]
        may_throw = True
        if cname and cname in self.m.functions:
            f = self.m.functions[cname]
            if f.nounwind or cname.startswith('nondet_'):
                may_throw = False
            if any(g in self.m.attr_nounwind for g in I['groups']) or 'nounwind' in I['groups']:
                may_throw = False
            target = cname
            if cname in self.replace:
                rep = self.replace[cname]
                may_throw = True
                if rep == '!noop':
                    if res is not None:
                        body.append('%s = %s;' % (res, self.zero_of(I['type'])))
                    self.after_call(I, label, body, False)
                    return
                if rep == '!havoc':
                    if res is not None:
                        body.append('%s = %s;' % (res, self.havoc_of(I['type'])))
                    self.after_call(I, label, body, False)
                    return
                if rep == '!unreachable':
                    body.append('__CPROVER_assert(0, "call to function declared unreachable by harness: %s"); __CPROVER_assume(0);' % cname)
                    if res is not None:
                        body.append('%s = %s;' % (res, self.zero_of(I['type'])))
                    self.after_call(I, label, body, False)
                    return
                self.use_global(cname)  # registers replacement target
                if rep in self.m.functions:
                    rf = self.m.functions[rep]
                    # cast args to the stub's parameter types when they differ
                    if len(rf.params) != len(args) and not (rf.vararg and len(args) >= len(rf.params)):
                        raise IRError('stub %s arity differs from %s' % (rep, cname))
                    argv = ['((%s)%s)' % (self.ct(pt), a) if self.ct(pt) != self.ct(at) else a
                            for a, (pt, _, _), (at, _, _) in zip(argv, rf.params, args)] + argv[len(rf.params):]
                    call = '%s(%s)' % (self.fname(rep), ', '.join(argv))
                    if res is not None and self.ct(rf.ret) != self.ct(I['type']):
                        if self.resolve(rf.ret)[0] in ('struct',):
                            raise IRError('stub %s returns different struct type than %s' % (rep, cname))
                        call = '((%s)%s)' % (self.ct(I['type']), call)
                else:
                    # C-level stub from rt/: declare prototype from the IR signature under the stub name
                    self.extra_protos[rep] = self.proto(f, rep)
                    call = '%s(%s)' % (rep, ', '.join(argv))
            else:
                self.use_global(cname)
                if I['fty'] is not None and f.vararg is False and len(f.params) != len(args):
                    raise IRError('call arity mismatch for %s' % cname)
                call = '%s(%s)' % (self.fname(cname), ', '.join(argv))
        else:
            # indirect call (or call through constant cast)
            if I['fty'] is not None:
                fty = I['fty']
            else:
                fty = ('func', I['type'], tuple(t for (t, v, a) in args), False)
            fpt = self.fp_typedef(fty)
            ce = self.cv(('ptr', fty), callee)
            call = '((%s)%s)(%s)' % (fpt, ce, ', '.join(argv))
            if any(g in self.m.attr_nounwind for g in I['groups']):
                may_throw = False
        if res is not None:
            self.ct(I['type'], True)
            body.append('%s = %s;' % (res, call))
        else:
            body.append('%s;' % call)
        self.after_call(I, label, body, may_throw)

    def const_string(self, v):
        while v[0] == 'cexpr':
            if v[1] == 'cast':
                v = v[3][1]
            elif v[1] == 'gep':
                v = v[3][1]
            else:
                break
        if v[0] != 'global':
            raise IRError('__CPROVER_assert message must be a string literal')
        g = self.m.globals[v[1]]
        init = global_init(g)
        if init[0] == 'cstr':
            return init[1].rstrip(b'\0').decode('latin1')
        if init[0] == 'zero':
            return ''
        raise IRError('__CPROVER_assert message is not a string constant')

    def havoc_of(self, t):
        r = self.resolve(t)
        if r[0] == 'int':
            return self.wrap(r[1], '(ir2c_in_u%d = nondet_u%d())' % (int_store_bits(r[1]), int_store_bits(r[1]))) if r[1] > 1 else '((uint8_t)((ir2c_in_u8 = nondet_u8()) & 1))'
        if r[0] == 'ptr':
            raise IRError('!havoc of pointer-returning function')
        raise IRError('!havoc of %r' % (r,))

    def emit_intrinsic(self, I, name, res, args, body):
        def A(i):
            return self.cv(args[i][0], args[i][1])
        base = name.split('.')[1]
        if base in ('lifetime', 'invariant', 'assume', 'experimental', 'dbg', 'donothing', 'prefetch'):
            if name.startswith('llvm.assume'):
                return
            if res is not None:
                body.append('%s = %s;' % (res, self.zero_of(I['type'])))
            return
        if base in ('memcpy', 'memmove'):
            body.append('ir2c_%s((void*)%s, (const void*)%s, %s);' % (base, A(0), A(1), self.size_arg(args[2])))
            return
        if base == 'memset':
            body.append('ir2c_memset((void*)%s, %s, %s);' % (A(0), A(1), self.size_arg(args[2])))
            return
        if base == 'ubsantrap':
            kind = args[0][1][1]
            names = {0: 'add-overflow', 1: 'builtin-unreachable', 2: 'cfi', 3: 'divrem-overflow', 12: 'mul-overflow',
                     13: 'negate-overflow', 18: 'out-of-bounds', 20: 'shift-out-of-bounds', 21: 'sub-overflow',
                     9: 'load-invalid-value', 11: 'missing-return', 5: 'float-cast-overflow'}
            body.append('__CPROVER_assert(0, "ubsan:%s (%d) in %s"); __CPROVER_assume(0);' % (names.get(kind, 'kind'), kind, self.cur_f.name))
            return
        if base in ('trap', 'debugtrap'):
            body.append('__CPROVER_assert(0, "llvm.trap in %s"); __CPROVER_assume(0);' % self.cur_f.name)
            return
        if base == 'expect':
            body.append('%s = %s;' % (res, A(0)))
            return
        if base == 'eh' and name.startswith('llvm.eh.typeid.for'):
            body.append('%s = %s;' % (res, self.int_lit(32, self.typeinfo_id(args[0][1]))))
            return
        t = args[0][0] if args else None
        n = self.resolve(t)[1] if t and self.resolve(t)[0] == 'int' else None
        if base in ('sadd', 'ssub', 'smul', 'uadd', 'usub', 'umul') and '.with.overflow' in name:
            w = self.nb(n)
            self.ct(I['type'], True)
            a, b = A(0), A(1)
            sgn = base[0] == 's'
            o = {'add': '+', 'sub': '-', 'mul': '*'}[base[1:]]
            if self.scale and w != n:
                bigw = 2 * w + 2
                if sgn:
                    ea = '((IR2C_SBV(%d))(IR2C_SBV(%d))(IR2C_UBV(%d))%s)' % (bigw, w, w, a)
                    eb = '((IR2C_SBV(%d))(IR2C_SBV(%d))(IR2C_UBV(%d))%s)' % (bigw, w, w, b)
                    body.append('{ IR2C_SBV(%d) x_ = %s %s %s; %s.f0 = %s; %s.f1 = (x_ < %d || x_ > %d); }' % (
                        bigw, ea, o, eb, res, self.wrap(n, '(%s)(IR2C_UBV(%d))x_' % (uint_ct(n), bigw)), res, -(1 << (w - 1)), (1 << (w - 1)) - 1))
                else:
                    ea = '((IR2C_SBV(%d))(IR2C_UBV(%d))%s)' % (bigw, w, a)
                    eb = '((IR2C_SBV(%d))(IR2C_UBV(%d))%s)' % (bigw, w, b)
                    body.append('{ IR2C_SBV(%d) x_ = %s %s %s; %s.f0 = %s; %s.f1 = (x_ < 0 || x_ > %d); }' % (
                        bigw, ea, o, eb, res, self.wrap(n, '(%s)(IR2C_UBV(%d))x_' % (uint_ct(n), bigw)), res, (1 << w) - 1))
                return
            bits = int_store_bits(n)
            if bits != n:
                raise IRError('with.overflow on i%d' % n)
            ty = sint_ct(n) if sgn else uint_ct(n)
            ea = self.sx(n, a) if sgn else a
            eb = self.sx(n, b) if sgn else b
            body.append('{ %s r_; %s.f1 = (uint8_t)__builtin_%s_overflow(%s, %s, &r_); %s.f0 = (%s)r_; }' % (
                ty, res, base[1:], ea, eb, res, uint_ct(n)))
            return
        if base == 'abs':
            sa = self.sx(n, A(0))
            body.append('%s = %s;' % (res, self.wrap(n, '(%s < 0 ? (%s)0 - (%s)%s : (%s)%s)' % (sa, self.work(n), self.work(n), A(0), self.work(n), A(0)))))
            return
        if base in ('smax', 'smin', 'umax', 'umin'):
            a, b = A(0), A(1)
            if base[0] == 's':
                c = '%s %s %s' % (self.sx(n, a), '>' if base == 'smax' else '<', self.sx(n, b))
            else:
                c = '%s %s %s' % (a, '>' if base == 'umax' else '<', b)
            body.append('%s = (%s) ? %s : %s;' % (res, c, a, b))
            return
        if base in ('ctlz', 'cttz', 'ctpop'):
            w = self.nb(n)
            bits = int_store_bits(n)
            if bits > 64:
                raise IRError('%s on i128' % base)
            body.append('%s = %s;' % (res, self.wrap(n, 'ir2c_%s(%s, %d)' % (base, '(uint64_t)' + A(0), w))))
            return
        if base == 'bswap':
            body.append('%s = __builtin_bswap%d(%s);' % (res, n, A(0)))
            return
        if base in ('fabs', 'floor', 'ceil', 'sqrt', 'trunc', 'round', 'rint', 'nearbyint'):
            body.append('%s = %s(%s);' % (res, {'fabs': 'fabs'}.get(base, base), A(0)))
            return
        if base in ('fshl', 'fshr'):
            if self.scale and self.nb(n) != n:
                raise IRError('funnel shift in scaled mode')
            W = self.work(n)
            a, b, c = A(0), A(1), A(2)
            if base == 'fshl':
                e = '((%s %% %d) == 0 ? %s : ((%s)%s << (%s %% %d)) | ((%s)%s >> (%d - (%s %% %d))))' % (c, n, a, W, a, c, n, W, b, n, c, n)
            else:
                e = '((%s %% %d) == 0 ? %s : ((%s)%s << (%d - (%s %% %d))) | ((%s)%s >> (%s %% %d)))' % (c, n, b, W, a, n, c, n, W, b, c, n)
            body.append('%s = %s;' % (res, self.wrap(n, e)))
            return
        if base in ('stacksave',):
            body.append('%s = 0;' % res)
            return
        if base in ('stackrestore',):
            return
        if base == 'objectsize':
            body.append('%s = %s;' % (res, self.int_lit(64, (1 << 64) - 1)))
            return
        if base == 'is' and 'constant' in name:
            body.append('%s = 0;' % res)
            return
        if base == 'threadlocal':
            body.append('%s = %s;' % (res, A(0)))
            return
        raise IRError('unsupported intrinsic %s' % name)

    def size_arg(self, a):
        t, v, _ = a
        n = self.resolve(t)[1]
        if self.scale and v[0] == 'int':
            return '((size_t)%d)' % v[1]     # byte counts are layout facts: never scaled
        return '((size_t)%s)' % self.cv(t, v)

    # ------------------------------------------------------------------ globals
    def emit_global(self, name):
        g = self.m.globals[name]
        cn = self.gname(name)
        if name.startswith('_ZTVN10__cxxabiv1'):
            return ('def', '/* %s provided by rt */' % name)
        if g.external:
            if self.is_rt_typeinfo(name):
                return ('rtti', name)
            return ('extern', 'extern %s %s;' % (self.ct(g.type, True), cn))
        init = global_init(g)
        tl = '__thread ' if g.thread_local else ''
        fwd = 'extern %s%s %s;\n' % (tl, self.ct(g.type, True), cn)
        self.global_fwd.append(fwd)
        if init[0] in ('zero', 'undef'):
            return ('def', '%s%s %s;' % (tl, self.ct(g.type, True), cn))
        return ('def', '%s%s %s = %s;' % (tl, self.ct(g.type, True), cn, self.cv(g.type, init, True)))


STD_RTTI = {
    # name -> base (None = class_type_info root / fundamental)
    '_ZTISt9exception': None,
    '_ZTISt9bad_alloc': '_ZTISt9exception',
    '_ZTISt20bad_array_new_length': '_ZTISt9bad_alloc',
    '_ZTISt11logic_error': '_ZTISt9exception',
    '_ZTISt13runtime_error': '_ZTISt9exception',
    '_ZTISt12out_of_range': '_ZTISt11logic_error',
    '_ZTISt12length_error': '_ZTISt11logic_error',
    '_ZTISt16invalid_argument': '_ZTISt11logic_error',
    '_ZTISt12domain_error': '_ZTISt11logic_error',
    '_ZTISt14overflow_error': '_ZTISt13runtime_error',
    '_ZTISt15underflow_error': '_ZTISt13runtime_error',
    '_ZTISt11range_error': '_ZTISt13runtime_error',
    '_ZTISt8bad_cast': '_ZTISt9exception',
    '_ZTISt10bad_typeid': '_ZTISt9exception',
    '_ZTISt17bad_function_call': '_ZTISt9exception',
    '_ZTISt16bad_array_length': '_ZTISt9bad_alloc',
    '_ZTISt18bad_variant_access': '_ZTISt9exception',
    '_ZTISt19bad_optional_access': '_ZTISt9exception',
    '_ZTINSt8ios_base7failureB5cxx11E': '_ZTISt12system_error',
    '_ZTISt12system_error': '_ZTISt13runtime_error',
    '_ZTIPKc': None, '_ZTIPc': None, '_ZTIi': None, '_ZTIj': None, '_ZTIl': None, '_ZTIm': None,
}


def demangle_all(names):
    if not names:
        return {}
    p = subprocess.run(['llvm-cxxfilt-14'], input='\n'.join(names), capture_output=True, text=True)
    outs = p.stdout.split('\n')
    return dict(zip(names, outs))


def build_replace(mod, spec):
    rep = {}
    pats = spec.get('replace', {})
    if not pats:
        return rep
    names = list(mod.functions.keys())
    dem = demangle_all(names)
    for pat, tgt in pats.items():
        hits = []
        if pat in mod.functions:
            hits = [pat]
        else:
            rx = None
            if pat.startswith('re:'):
                rx = re.compile(pat[3:])
            for n in names:
                d = dem.get(n, n)
                if rx is not None:
                    if rx.search(d):
                        hits.append(n)
                elif d == pat:
                    hits.append(n)
        if not hits and not spec.get('allow_unmatched'):
            raise IRError('replace pattern matched nothing: %r' % pat)
        for h in hits:
            if h == tgt:
                continue
            rep[h] = tgt
    return rep


def main():
    ap = argparse.ArgumentParser()
    ap.add_argument('module')
    ap.add_argument('-o', required=True)
    ap.add_argument('--entry', action='append', required=True)
    ap.add_argument('--spec')
    ap.add_argument('--scale', type=int)
    ap.add_argument('--report')
    a = ap.parse_args()
    try:
        run(a)
    except IRError as e:
        sys.stderr.write('ir2c: ERROR: %s\n' % e)
        sys.exit(2)


def run(a):
    text = open(a.module).read()
    mod = parse_module(text)
    spec = json.load(open(a.spec)) if a.spec else {}
    em = Emitter(mod, a.scale)
    em.replace = build_replace(mod, spec)
    em.typed_alloc_enabled = bool(spec.get('typed_alloc'))
    em.zero_allocas = bool(spec.get('zero_allocas'))   # opt-in: stack slots start zeroed (a partially initialised aggregate is not a constant for CBMC's propagation)
    rt_provided = set(spec.get('rt_provided', []))
    rtdir = os.path.join(os.path.dirname(os.path.dirname(os.path.abspath(__file__))), 'rt')
    c_includes = ['ir2c_rt_impl.c', 'libstdcxx.c'] + spec.get('c_include', [])
    for ci in c_includes:
        pth = ci if os.path.isabs(ci) else os.path.join(rtdir, ci)
        if not os.path.exists(pth) and a.spec:
            pth = os.path.join(os.path.dirname(os.path.abspath(a.spec)), ci)
        txt = open(pth).read()
        rt_provided.update(re.findall(r'^[A-Za-z_][\w \*]*?\b(\w+)\s*\([^;{}]*\)\s*\{', txt, re.M))
    c_include_paths = c_includes
    for e in a.entry:
        if e not in mod.functions:
            raise IRError('entry %s not in module' % e)
        em.use_global(e)
    em.entry_names = set(a.entry)
    # dynamic initialisers: candidate functions and the globals each mentions
    init_cands = []
    if 'llvm.global_ctors' in mod.globals:
        gc = global_init(mod.globals['llvm.global_ctors'])
        if gc[0] == 'agg':
            for (et, ev) in gc[2]:
                fn = ev[2][1][1]
                while fn[0] == 'cexpr':
                    fn = fn[3][1]
                if fn[0] != 'global':
                    continue
                fname = fn[1]
                f = mod.functions.get(fname)
                if f is None or f.body_lines is None:
                    continue
                if fname.startswith('_GLOBAL__sub_I'):
                    for ln in f.body_lines:
                        mm = re.search(r'call .*@("[^"]+"|[-a-zA-Z$._0-9]+)\(\)', ln)
                        if mm:
                            init_cands.append(unquote(mm.group(1)))
                else:
                    init_cands.append(fname)
    init_mentions = {}
    for c in init_cands:
        f = mod.functions.get(c)
        if f is None or f.body_lines is None:
            continue
        names = set()
        for ln in f.body_lines:
            for mm in re.finditer(r'@("[^"]+"|[-a-zA-Z$._0-9]+)', ln):
                n = unquote(mm.group(1))
                if n in mod.globals and not n.startswith('.str') and n != '__dso_handle':
                    names.add(n)
        init_mentions[c] = names
    init_included = []
    func_text = []
    real_bodies = []
    undefined = []
    i = 0
    gi = 0
    global_text = {}
    while i < len(em.used_funcs) or gi < len(em.used_globals):
        while i < len(em.used_funcs):
            name = em.used_funcs[i]
            i += 1
            f = mod.functions[name]
            if name in em.replace and name not in a.entry:
                continue
            if f.body_lines is None:
                if not name.startswith('llvm.'):
                    undefined.append(name)
                continue
            try:
                func_text.append(em.emit_function(f))
            except IRError as e:
                raise IRError('%s\n   in function %s' % (e, name))
            real_bodies.append(name)
        while gi < len(em.used_globals):
            name = em.used_globals[gi]
            gi += 1
            global_text[name] = em.emit_global(name)
        if i >= len(em.used_funcs) and gi >= len(em.used_globals):
            # closure complete: pull in the dynamic initialisers of the globals it uses (fixpoint)
            for c in init_cands:
                trig = set(g for g in (init_mentions.get(c, set()) & em.used_globals_set) if not any(re.search(rx, g) for rx in spec.get('no_dynamic_init', [])))
                if c not in init_included and trig:
                    init_included.append(c)
                    em.use_global(c)
    # externals: must be provided by rt (listed) or it is an error
    dem = demangle_all(undefined)
    missing = [n for n in undefined if n not in rt_provided and not is_rt_builtin(n)]
    if missing:
        raise IRError('functions without body and without model/stub:\n  ' + '\n  '.join('%s   [%s]' % (n, dem.get(n, '')) for n in missing))
    out = []
    out.append('/* generated by ir2c from %s -- do not edit */' % os.path.basename(a.module))
    out.append('#include "ir2c_rt.h"')
    if a.scale:
        out.append('#define IR2C_SCALE %d' % a.scale)
    # prototypes first force completion of by-value struct params
    protos = []
    for name in em.used_funcs:
        f = mod.functions[name]
        if name.startswith('llvm.'):
            continue
        if name in em.replace and name not in a.entry:
            continue
        if f.body_lines is None and is_rt_builtin(name) and not name.startswith('nondet_'):
            continue
        if name in ('nondet_u8', 'nondet_u16', 'nondet_u32', 'nondet_u64'):
            continue
        if f.body_lines is None and name in rt_provided and name in NO_PROTO:
            continue
        protos.append(em.proto(f) + ';')
    for rep, pr in em.extra_protos.items():
        protos.append(pr + ';')
    gdefs = []
    rtti = []
    for name in em.used_globals:
        kind, txt = global_text[name]
        if kind == 'rtti':
            rtti.append(txt)
        else:
            gdefs.append(txt)
    # std typeinfo objects referenced
    rtti_defs = []
    done = set()

    def emit_rtti(n):
        if n in done:
            return
        done.add(n)
        if n not in STD_RTTI:
            raise IRError('external typeinfo %s not in the std table' % n)
        b = STD_RTTI[n]
        if b is not None:
            emit_rtti(b)
            rtti_defs.append('struct ir2c_typeinfo %s = { (void*)&ir2c_si_class_vt, "%s", (void*)&%s };' % (n, n, b))
        else:
            rtti_defs.append('struct ir2c_typeinfo %s = { (void*)&ir2c_class_vt, "%s", 0 };' % (n, n))
    for n in rtti:
        emit_rtti(n)
    out.extend(em.forward)
    out.extend(em.typedef_text)
    out.extend(em.struct_defs)
    # anything newly forward declared during later emission is already in em.forward (same list)
    out.extend(rtti_defs)
    out.extend(protos)
    out.extend(x.rstrip() for x in em.global_fwd)
    out.extend(gdefs)
    out.extend(func_text)
    out.append('void ir2c_global_init(void) {')
    out.append('  static int done; if (done) return; done = 1;')
    for c in init_included:
        out.append('  %s();' % em.fname(c))
    out.append('}')
    for e in a.entry:
        ef = mod.functions[e]
        if ef.params or ef.ret != ('void',):
            raise IRError('entry %s must be void(void)' % e)
        out.append('void %s(void) { ir2c_global_init(); %s(); }' % (em.gname(e), em.fname(e)))
    for n in undefined:
        out.append('#define IR2C_NEED_%s 1' % sanitize(n))
        if n in mod.functions and not n.startswith('llvm.'):
            # lets a model in rt/ be written without knowing module-dependent struct tags:
            #   IR2C_RET_<n> <n>(IR2C_ARGS_<n>) { ... a0, a1, ... }
            f_ = mod.functions[n]
            pr_ = em.proto(f_)
            out.append('#define IR2C_ARGS_%s %s' % (sanitize(n), pr_[pr_.index('(') + 1:pr_.rindex(')')]))
            out.append('#define IR2C_RET_%s %s' % (sanitize(n), em.ct(f_.ret, True) if f_.ret != ('void',) else 'void'))
    for n in em.used_globals:
        if mod.globals[n].external:
            out.append('#define IR2C_NEEDG_%s 1' % sanitize(n))
    for k, v in spec.get('c_defines', {}).items():
        out.append('#define %s %s' % (k, v))
    for ci in c_include_paths:
        out.append('#include "%s"' % ci)
    with open(a.o, 'w') as fh:
        fh.write('\n'.join(out) + '\n')
    if a.report:
        dem = demangle_all(real_bodies + list(em.replace.keys()))
        json.dump({'real_bodies': [dem.get(n, n) for n in real_bodies],
                   'real_bodies_mangled': real_bodies,
                   'replaced': {dem.get(k, k): v for k, v in em.replace.items() if k in em.used_funcs_set},
                   'rt_models': sorted(n for n in undefined),
                   'globals': em.used_globals, 'dynamic_initialisers_run': init_included,
                   'scale': a.scale, 'scale_ambiguous_literals': sorted(em.ambiguous_literals)}, open(a.report, 'w'), indent=1)


NO_PROTO = set()
RT_BUILTIN = {
    'malloc', 'free', 'calloc', 'realloc', 'memcpy', 'memmove', 'memset', 'memcmp', 'strlen', 'strcmp', 'strncmp',
    'strcpy', 'strcat', 'strchr', 'strrchr', 'memchr', 'abort', 'exit',
}


def is_rt_builtin(n):
    return n in RT_BUILTIN or n.startswith('nondet_') or n.startswith('__CPROVER_')


if __name__ == '__main__':
    main()

#!/usr/bin/env python3
"""setup: nothing to build (the framework is Python + C sources); verify the tools are present."""
import shutil, sys
missing = [t for t in ('clang++-14', 'llvm-link-14', 'llvm-cxxfilt-14', 'cbmc', 'gcc') if not shutil.which(t)]
if missing:
    print('missing tools:', missing); sys.exit(1)
print('setup ok')

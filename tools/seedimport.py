#!/usr/bin/env python3
"""seedimport.py <seed_out_dir> <PROP> <k> <status> <detected_by/why> -- copy a confirmed seeded change into /verif/seeded/<PROP>-<k>/"""
import sys, os, shutil, json, re
src, prop, k, status, note = sys.argv[1:6]
dst = '/verif/seeded/%s-%s' % (prop, k)
os.makedirs(dst, exist_ok=True)
for f in os.listdir(src):
    if f in ('demo_bin', 'demo') or f.endswith('.log') and f != 'confirm.log':
        continue
    p = os.path.join(src, f)
    if os.path.isfile(p) and os.path.getsize(p) < 200000:
        shutil.copy(p, os.path.join(dst, f))
readme = open(os.path.join(src, 'README.txt')).read() if os.path.exists(os.path.join(src, 'README.txt')) else ''
conf = open(os.path.join(src, 'confirm.log')).read()[-400:] if os.path.exists(os.path.join(src, 'confirm.log')) else ''
files = re.findall(r'^\+\+\+ b/(\S+)', open(os.path.join(src, 'patch.diff')).read(), re.M)
meta = {'property': prop, 'files_touched': files,
        'origin': 'written by an independent sub-agent that saw only the property text and its own scratch worktree of /repo (nothing from /verif)',
        'needs_to_manifest': readme[:1500],
        'confirmed_by_me': 'tools/seedconfirm.sh in the scratch worktree: patch applies, builds, ctest 314/314 pass with the change, demonstration fails with the change and passes without it',
        'check_result': status, 'detail': note,
        'how_run': 'tools/seedtest.sh seeded/%s-%s/patch.diff %s   (applies the patch in the scratch worktree /tmp/mutwt, runs the check with VERIF_REPO pointing at it, reverts)' % (prop, k, prop)}
json.dump(meta, open(os.path.join(dst, 'meta.json'), 'w'), indent=1)
print(dst)

"""Front end shared by all checks: /repo sources -> LLVM IR -> C (ir2c) -> CBMC verdicts.

Nothing derived from /repo is cached: every call recompiles from the working tree.
"""
import os, sys, json, subprocess, time, re, shutil, hashlib, resource

VERIF = os.path.dirname(os.path.dirname(os.path.abspath(__file__)))
REPO = os.environ.get('VERIF_REPO', '/repo')
TOOLS = os.path.join(VERIF, 'tools')
RT = os.path.join(VERIF, 'rt')
HARNESS = os.path.join(VERIF, 'harness')

CLANG = 'clang++-14'
CXXFLAGS = ['-std=gnu++20', '-DNDEBUG', '-O1', '-fno-inline', '-fno-vectorize', '-fno-slp-vectorize',
            '-fno-unroll-loops', '-fno-access-control', '-fno-builtin',
            '-fsanitize=signed-integer-overflow,integer-divide-by-zero,shift,unreachable,return,bounds,float-cast-overflow',
            '-fsanitize-trap=all', '-Wno-everything']


def include_flags():
    src = os.path.join(REPO, 'src')
    dirs = [src]
    for root, ds, fs in os.walk(src):
        ds[:] = [d for d in ds if d not in ('parallel',)]
        dirs.append(root)
    inc = []
    for d in sorted(set(dirs)):
        inc += ['-I', d]
    inc += ['-I', os.path.join(VERIF, 'harness', 'include')]
    return inc


class Broken(Exception):
    """machinery failure: the check is broken (exit 2), never a verdict"""


def run(cmd, timeout=None, cwd=None, env=None, mem_gb=None):
    def lim():
        if mem_gb:
            b = int(mem_gb * (1 << 30))
            resource.setrlimit(resource.RLIMIT_AS, (b, b))
    t = time.time()
    try:
        p = subprocess.run(cmd, capture_output=True, text=True, timeout=timeout, cwd=cwd, env=env,
                           preexec_fn=lim if mem_gb else None)
        return p.returncode, p.stdout, p.stderr, time.time() - t
    except subprocess.TimeoutExpired as e:
        return -9, (e.stdout or b'').decode() if isinstance(e.stdout, bytes) else (e.stdout or ''), 'TIMEOUT', time.time() - t


def compile_ir(src, out, defines=()):
    cmd = [CLANG] + CXXFLAGS + include_flags() + ['-D' + d for d in defines] + ['-S', '-emit-llvm', src, '-o', out]
    rc, so, se, dt = run(cmd, timeout=600)
    if rc != 0:
        raise Broken('clang failed on %s:\n%s' % (src, se[-3000:]))
    return dt


def link_ir(irs, out):
    rc, so, se, dt = run(['llvm-link-14', '-S'] + irs + ['-o', out], timeout=600)
    if rc != 0:
        raise Broken('llvm-link failed:\n%s' % se[-3000:])
    return dt


def translate(ll, entries, spec, out_c, report, scale=None):
    specf = out_c + '.spec.json'
    json.dump(spec, open(specf, 'w'))
    cmd = [sys.executable, os.path.join(TOOLS, 'ir2c.py'), ll, '-o', out_c, '--spec', specf, '--report', report]
    for e in entries:
        cmd += ['--entry', e]
    if scale:
        cmd += ['--scale', str(scale)]
    rc, so, se, dt = run(cmd, timeout=900)
    if rc != 0:
        raise Broken('ir2c failed for %s:\n%s' % (os.path.basename(ll), se[-6000:]))
    return dt


CBMC_BASE = ['cbmc', '--no-standard-checks', '--pointer-check', '--bounds-check', '--div-by-zero-check',
             '--unwinding-assertions', '--drop-unused-functions', '--no-malloc-may-fail', '--json-ui',
             '--slice-formula', '--object-bits', '12', '--verbosity', '8']


def run_cbmc(cfile, entry, unwind, timeout, extra=(), mem_gb=24, unwindset=()):
    # a trace run must not slice: sliced input assignments vanish from the trace and the replayed input sequence shifts
    base = [a for a in CBMC_BASE if a != '--slice-formula'] if '--trace' in extra else CBMC_BASE
    cmd = base + ['-I', RT, '-I', os.path.dirname(cfile), cfile, '--function', entry, '--unwind', str(unwind)]
    for u in unwindset:
        cmd += ['--unwindset', u]
    if '--object-bits' in extra:      # a spec may ask for more object bits than the default
        i = cmd.index('--object-bits'); del cmd[i:i + 2]
    cmd += list(extra)
    rc, so, se, dt = run(cmd, timeout=timeout, mem_gb=mem_gb)
    res = {'entry': entry, 'wall_s': round(dt, 2), 'rc': rc, 'props': [], 'status': None, 'cmd': ' '.join(cmd)}
    if rc == -9:
        res['status'] = 'timeout'
        return res
    try:
        data = json.loads(so)
    except Exception:
        res['status'] = 'error'
        res['detail'] = (so[-1500:] + '\n' + se[-1500:])
        return res
    msgs = []
    for item in data:
        if 'result' in item:
            for p in item['result']:
                res['props'].append({'name': p.get('property'), 'desc': p.get('description'), 'status': p.get('status'),
                                     'trace': p.get('trace'), 'loc': (p.get('sourceLocation') or {}).get('function')})
        if 'cProverStatus' in item:
            res['status'] = item['cProverStatus']
        if item.get('messageType') in ('ERROR',):
            msgs.append(item.get('messageText', ''))
        if item.get('messageType') == 'STATUS-MESSAGE':
            mt = item.get('messageText', '')
            m = re.search(r'(\d+) variables, (\d+) clauses', mt)
            if m:
                res['sat_vars'] = max(res.get('sat_vars', 0), int(m.group(1)))
                res['sat_clauses'] = max(res.get('sat_clauses', 0), int(m.group(2)))
                res['sat_calls'] = res.get('sat_calls', 0) + 1
            m = re.search(r'Runtime Solver: ([\d.e+-]+)s', mt)
            if m:
                res['solver_s'] = res.get('solver_s', 0) + float(m.group(1))
    if res['status'] is None:
        res['status'] = 'error'
        res['detail'] = '\n'.join(msgs)[-3000:] + se[-1500:]
    return res


def trace_inputs(trace):
    """extract the sequence of nondet return values from a CBMC json trace"""
    vals = []
    for st in trace or []:
        if st.get('stepType') == 'assignment':
            lhs = st.get('lhs', '')
            if 'return_value_nondet_' in lhs or lhs.startswith('return_value_nondet'):
                v = st.get('value', {})
                vals.append((lhs, v.get('data'), v.get('binary')))
    return vals


def scratch_dir(name):
    base = os.environ.get('VERIF_SCRATCH', os.path.join(VERIF, '.work'))
    d = os.path.join(base, name)
    shutil.rmtree(d, ignore_errors=True)
    os.makedirs(d, exist_ok=True)
    return d

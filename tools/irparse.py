"""Parser for the subset of LLVM-14 textual IR that clang++-14 -O1 emits for opensmt.

Types are hashable tuples:
  ('void',) ('int',N) ('fp',name) ('ptr',T) ('array',N,T) ('struct',(T..),packed) ('named',name)
  ('func',ret,(params..),vararg) ('label',) ('metadata',) ('token',) ('vector',N,T)
Values are tuples:
  ('local',n) ('global',n) ('int',v) ('fp',text) ('null',) ('undef',) ('zero',) ('cstr',bytes)
  ('agg',kind,[(T,V)..]) ('cexpr',op,...)
Unsupported constructs raise IRError (the caller turns that into "check broken").
"""
import re


class IRError(Exception):
    pass


TOKEN_RE = re.compile(r'''
    (?P<ws>\s+)
  | (?P<comment>;[^\n]*)
  | (?P<cstr>c"(?:[^"\\]|\\[0-9A-Fa-f]{2}|\\\\)*")
  | (?P<str>"(?:[^"\\]|\\[0-9A-Fa-f]{2}|\\\\)*")
  | (?P<local>%(?:"(?:[^"\\]|\\[0-9A-Fa-f]{2})*"|[-a-zA-Z$._0-9]+))
  | (?P<global>@(?:"(?:[^"\\]|\\[0-9A-Fa-f]{2})*"|[-a-zA-Z$._0-9]+))
  | (?P<comdat>\$(?:"[^"]*"|[-a-zA-Z$._0-9]+))
  | (?P<meta>!(?:"[^"]*"|[-a-zA-Z$._0-9]*))
  | (?P<attr>\#[0-9]+)
  | (?P<hex>0x[KLMHR]?[0-9A-Fa-f]+)
  | (?P<num>-?[0-9]+(?:\.[0-9]*(?:[eE][-+]?[0-9]+)?)?)
  | (?P<dots>\.\.\.)
  | (?P<word>[a-zA-Z_][a-zA-Z_0-9.]*)
  | (?P<punct>[()\[\]{}<>,=*:|])
''', re.X)


def tokenize(s):
    out = []
    pos = 0
    n = len(s)
    while pos < n:
        m = TOKEN_RE.match(s, pos)
        if not m:
            raise IRError('lex error at: %r' % s[pos:pos + 60])
        pos = m.end()
        k = m.lastgroup
        if k in ('ws', 'comment'):
            continue
        out.append((k, m.group()))
    return out


def unquote(name):
    """%"a b" -> a b ; handles \\xx escapes"""
    if name.startswith('"'):
        body = name[1:-1]
        return re.sub(r'\\([0-9A-Fa-f]{2})', lambda m: chr(int(m.group(1), 16)), body)
    return name


def cstr_bytes(tok):
    body = tok[2:-1] if tok.startswith('c"') else tok[1:-1]
    out = bytearray()
    i = 0
    while i < len(body):
        c = body[i]
        if c == '\\':
            if body[i + 1] == '\\':
                out.append(92)
                i += 2
            else:
                out.append(int(body[i + 1:i + 3], 16))
                i += 3
        else:
            out.append(ord(c))
            i += 1
    return bytes(out)


PARAM_ATTRS = {
    'noundef', 'nonnull', 'noalias', 'nocapture', 'readonly', 'writeonly', 'readnone', 'returned',
    'signext', 'zeroext', 'inreg', 'immarg', 'nest', 'nofree', 'swiftself', 'swifterror', 'inalloca',
    'noreturn', 'nounwind', 'allocsize', 'mustprogress',
}
PARAM_ATTRS_ARG = {'align', 'dereferenceable', 'dereferenceable_or_null', 'sret', 'byval', 'byref',
                   'preallocated', 'elementtype', 'allocalign'}
LINKAGE_WORDS = {
    'private', 'internal', 'available_externally', 'linkonce', 'weak', 'common', 'appending', 'extern_weak',
    'linkonce_odr', 'weak_odr', 'external', 'dso_local', 'dso_preemptable', 'default', 'hidden', 'protected',
    'dllimport', 'dllexport', 'unnamed_addr', 'local_unnamed_addr', 'externally_initialized',
    'fastcc', 'coldcc', 'ccc',
}
FAST_MATH = {'fast', 'nnan', 'ninf', 'nsz', 'arcp', 'contract', 'afn', 'reassoc'}
BINOPS = {'add', 'sub', 'mul', 'udiv', 'sdiv', 'urem', 'srem', 'shl', 'lshr', 'ashr', 'and', 'or', 'xor',
          'fadd', 'fsub', 'fmul', 'fdiv', 'frem'}
CASTOPS = {'trunc', 'zext', 'sext', 'fptrunc', 'fpext', 'fptoui', 'fptosi', 'uitofp', 'sitofp',
           'ptrtoint', 'inttoptr', 'bitcast', 'addrspacecast'}


class P:
    """token stream parser"""

    def __init__(self, toks):
        self.t = toks
        self.i = 0

    def peek(self, k=0):
        j = self.i + k
        return self.t[j] if j < len(self.t) else ('eof', '')

    def next(self):
        tok = self.peek()
        self.i += 1
        return tok

    def at(self, text):
        return self.peek()[1] == text

    def accept(self, text):
        if self.peek()[1] == text:
            self.i += 1
            return True
        return False

    def expect(self, text):
        tok = self.next()
        if tok[1] != text:
            raise IRError('expected %r got %r near %r' % (text, tok[1], ' '.join(x[1] for x in self.t[max(0, self.i - 8):self.i + 8])))
        return tok

    def eof(self):
        return self.i >= len(self.t)

    # ---------- types
    def type(self):
        t = self.type_prim()
        while True:
            if self.accept('*'):
                t = ('ptr', t)
            elif self.at('(') and self._looks_like_functype():
                self.next()
                params = []
                vararg = False
                while not self.at(')'):
                    if self.accept('...'):
                        vararg = True
                    else:
                        params.append(self.type())
                        self.skip_param_attrs()
                    if not self.accept(','):
                        break
                self.expect(')')
                t = ('func', t, tuple(params), vararg)
            elif self.peek()[1] == 'addrspace':
                raise IRError('addrspace')
            else:
                return t

    def _looks_like_functype(self):
        # a '(' after a type starts a function type only in type context; callers that parse
        # "call T @f(args)" use type_nofunc() instead when needed.
        return True

    def type_prim(self):
        k, v = self.next()
        if k == 'word':
            if v == 'void':
                return ('void',)
            if re.fullmatch(r'i[0-9]+', v):
                return ('int', int(v[1:]))
            if v in ('float', 'double', 'x86_fp80', 'half', 'fp128'):
                return ('fp', v)
            if v == 'label':
                return ('label',)
            if v == 'metadata':
                return ('metadata',)
            if v == 'token':
                return ('token',)
            if v == 'opaque':
                return ('opaque',)
            if v == 'ptr':
                raise IRError('opaque pointers not supported')
        if k == 'local':
            return ('named', unquote(v[1:]))
        if v == '[':
            n = int(self.next()[1])
            self.expect('x')
            t = self.type()
            self.expect(']')
            return ('array', n, t)
        if v == '{':
            fs = []
            while not self.at('}'):
                fs.append(self.type())
                if not self.accept(','):
                    break
            self.expect('}')
            return ('struct', tuple(fs), False)
        if v == '<':
            if self.at('{'):
                self.next()
                fs = []
                while not self.at('}'):
                    fs.append(self.type())
                    if not self.accept(','):
                        break
                self.expect('}')
                self.expect('>')
                return ('struct', tuple(fs), True)
            n = int(self.next()[1])
            self.expect('x')
            t = self.type()
            self.expect('>')
            return ('vector', n, t)
        raise IRError('bad type token %r' % (v,))

    def skip_param_attrs(self):
        attrs = {}
        while True:
            k, v = self.peek()
            if k == 'word' and v in PARAM_ATTRS:
                self.next()
                attrs[v] = True
            elif k == 'word' and v in PARAM_ATTRS_ARG:
                self.next()
                if self.accept('('):
                    if v in ('sret', 'byval', 'byref', 'elementtype', 'preallocated'):
                        attrs[v] = self.type()
                    else:
                        attrs[v] = self.next()[1]
                    self.expect(')')
                else:
                    # "align 8"
                    attrs[v] = self.next()[1]
            else:
                return attrs

    # ---------- values
    def typed_value(self):
        t = self.type()
        a = self.skip_param_attrs()
        v = self.value(t)
        return (t, v)

    def value(self, t):
        k, v = self.next()
        if k == 'local':
            return ('local', unquote(v[1:]))
        if k == 'global':
            return ('global', unquote(v[1:]))
        if k == 'num':
            if t[0] == 'fp':
                return ('fp', v)
            if '.' in v or 'e' in v:
                return ('fp', v)
            return ('int', int(v))
        if k == 'hex':
            return ('fp', v)
        if k == 'cstr':
            return ('cstr', cstr_bytes(v))
        if k == 'word':
            if v == 'true':
                return ('int', 1)
            if v == 'false':
                return ('int', 0)
            if v == 'null':
                return ('null',)
            if v in ('undef', 'poison'):
                return ('undef',)
            if v == 'zeroinitializer':
                return ('zero',)
            if v == 'none':
                return ('undef',)
            if v == 'getelementptr':
                inb = self.accept('inbounds')
                self.expect('(')
                bt = self.type()
                self.expect(',')
                base = self.typed_value()
                idx = []
                while self.accept(','):
                    self.accept('inrange')
                    idx.append(self.typed_value())
                self.expect(')')
                return ('cexpr', 'gep', bt, base, idx)
            if v in CASTOPS:
                self.expect('(')
                src = self.typed_value()
                self.expect('to')
                dt = self.type()
                self.expect(')')
                return ('cexpr', 'cast', v, src, dt)
            if v in BINOPS:
                while self.peek()[1] in ('nuw', 'nsw', 'exact'):
                    self.next()
                self.expect('(')
                a = self.typed_value()
                self.expect(',')
                b = self.typed_value()
                self.expect(')')
                return ('cexpr', 'bin', v, a, b)
            if v == 'icmp':
                pred = self.next()[1]
                self.expect('(')
                a = self.typed_value()
                self.expect(',')
                b = self.typed_value()
                self.expect(')')
                return ('cexpr', 'icmp', pred, a, b)
            if v == 'select':
                self.expect('(')
                c = self.typed_value()
                self.expect(',')
                a = self.typed_value()
                self.expect(',')
                b = self.typed_value()
                self.expect(')')
                return ('cexpr', 'select', c, a, b)
            if v == 'dso_local_equivalent':
                return self.value(t)
            raise IRError('unsupported constant %r' % v)
        if v == '{':
            items = []
            while not self.at('}'):
                items.append(self.typed_value())
                if not self.accept(','):
                    break
            self.expect('}')
            return ('agg', 'struct', items)
        if v == '[':
            items = []
            while not self.at(']'):
                items.append(self.typed_value())
                if not self.accept(','):
                    break
            self.expect(']')
            return ('agg', 'array', items)
        if v == '<':
            if self.at('{'):
                self.next()
                items = []
                while not self.at('}'):
                    items.append(self.typed_value())
                    if not self.accept(','):
                        break
                self.expect('}')
                self.expect('>')
                return ('agg', 'struct', items)
            raise IRError('vector constant')
        raise IRError('bad value token %r (type %r)' % (v, t))


# --------------------------------------------------------------------------- module level

class Function:
    def __init__(self):
        self.name = None
        self.ret = None
        self.params = []      # [(type, name, attrs)]
        self.vararg = False
        self.body_lines = None  # raw text lines (None for declarations)
        self.blocks = None      # parsed lazily: [(label, [instr])]
        self.nounwind = False
        self.attr_groups = []

    @property
    def ftype(self):
        return ('func', self.ret, tuple(p[0] for p in self.params), self.vararg)


class GlobalVar:
    def __init__(self):
        self.name = None
        self.type = None
        self.init_toks = None
        self.init = None
        self.external = False
        self.constant = False
        self.thread_local = False


class Module:
    def __init__(self):
        self.types = {}      # name -> type tuple (or ('opaque',))
        self.globals = {}
        self.functions = {}
        self.aliases = {}    # name -> (type, target global name)
        self.attr_nounwind = set()
        self.ctors = []


def parse_header(line, is_define):
    """parse 'define/declare ... ret @name(params) attrs {'"""
    toks = tokenize(line)
    p = P(toks)
    p.next()  # define/declare
    while p.peek()[0] == 'word' and (p.peek()[1] in LINKAGE_WORDS):
        p.next()
    ret_attrs = p.skip_param_attrs()
    # return type: must not swallow '(' of the parameter list -> parse prim + stars, allow func-pointer returns
    f = Function()
    f.ret = parse_type_until_global(p)
    k, v = p.next()
    if k != 'global':
        raise IRError('function header: expected name in %r' % line[:120])
    f.name = unquote(v[1:])
    p.expect('(')
    n_anon = 0
    while not p.at(')'):
        if p.accept('...'):
            f.vararg = True
        else:
            t = p.type()
            attrs = p.skip_param_attrs()
            name = None
            if p.peek()[0] == 'local':
                name = unquote(p.next()[1][1:])
            elif is_define:
                name = str(n_anon)
            if is_define and name is not None and name.isdigit():
                n_anon = int(name) + 1
            f.params.append((t, name, attrs))
        if not p.accept(','):
            break
    p.expect(')')
    rest = [x[1] for x in p.t[p.i:]]
    f.attr_groups = [x for x in rest if x.startswith('#')]
    f.nounwind = 'nounwind' in rest
    f.n_anon = n_anon
    return f


def parse_type_until_global(p):
    """type followed by @name( : function-type suffixes belong to the return type only if followed by '*'."""
    t = p.type_prim()
    while True:
        if p.accept('*'):
            t = ('ptr', t)
        elif p.at('('):
            # look ahead for matching ')' followed by '*'
            depth = 0
            j = p.i
            while True:
                v = p.t[j][1]
                if v == '(':
                    depth += 1
                elif v == ')':
                    depth -= 1
                    if depth == 0:
                        break
                j += 1
            if j + 1 < len(p.t) and p.t[j + 1][1] == '*':
                p.next()
                params = []
                vararg = False
                while not p.at(')'):
                    if p.accept('...'):
                        vararg = True
                    else:
                        params.append(p.type())
                        p.skip_param_attrs()
                    if not p.accept(','):
                        break
                p.expect(')')
                t = ('func', t, tuple(params), vararg)
            else:
                return t
        else:
            return t


def parse_module(text):
    m = Module()
    lines = text.split('\n')
    i = 0
    n = len(lines)
    attr_groups = {}
    while i < n:
        line = lines[i]
        if not line or line[0] == ';':
            i += 1
            continue
        if line.startswith('%') or line.startswith('%"'):
            mm = re.match(r'(%(?:"(?:[^"\\]|\\[0-9A-Fa-f]{2})*"|[-a-zA-Z$._0-9]+)) = type (.*)$', line)
            if not mm:
                raise IRError('bad type line %r' % line[:100])
            name = unquote(mm.group(1)[1:])
            p = P(tokenize(mm.group(2)))
            m.types[name] = p.type()
            i += 1
            continue
        if line.startswith('@'):
            parse_global_line(m, line)
            i += 1
            continue
        if line.startswith('define'):
            f = parse_header(line, True)
            body = []
            i += 1
            while lines[i] != '}':
                body.append(lines[i])
                i += 1
            i += 1
            f.body_lines = body
            m.functions[f.name] = f
            continue
        if line.startswith('declare'):
            f = parse_header(line, False)
            if f.name not in m.functions:
                m.functions[f.name] = f
            i += 1
            continue
        if line.startswith('attributes'):
            mm = re.match(r'attributes (#[0-9]+) = \{(.*)\}', line)
            if mm:
                attr_groups[mm.group(1)] = mm.group(2)
            i += 1
            continue
        # source_filename, target, $comdat, !metadata
        i += 1
    for g, txt in attr_groups.items():
        if re.search(r'\bnounwind\b', txt):
            m.attr_nounwind.add(g)
    for f in m.functions.values():
        if any(g in m.attr_nounwind for g in f.attr_groups):
            f.nounwind = True
    return m


def parse_global_line(m, line):
    mm = re.match(r'(@(?:"(?:[^"\\]|\\[0-9A-Fa-f]{2})*"|[-a-zA-Z$._0-9]+)) = (.*)$', line)
    if not mm:
        raise IRError('bad global line %r' % line[:100])
    name = unquote(mm.group(1)[1:])
    toks = tokenize(mm.group(2))
    p = P(toks)
    g = GlobalVar()
    g.name = name
    while p.peek()[0] == 'word' and (p.peek()[1] in LINKAGE_WORDS or p.peek()[1] in ('thread_local',)):
        w = p.next()[1]
        if w in ('external', 'extern_weak'):
            g.external = True
        if w == 'thread_local':
            g.thread_local = True
            if p.accept('('):
                p.next()
                p.expect(')')
    k, v = p.next()
    if v == 'alias' or v == 'ifunc':
        t = p.type()
        p.expect(',')
        tv = p.typed_value()
        m.aliases[name] = (t, tv)
        return
    if v not in ('global', 'constant'):
        raise IRError('global line: expected global/constant, got %r in %r' % (v, line[:120]))
    g.constant = (v == 'constant')
    g.type = p.type()
    if not g.external:
        g.init_toks = p.t[p.i:]
    m.globals[name] = g


def global_init(g):
    if g.init is None and g.init_toks is not None:
        p = P(g.init_toks)
        g.init = p.value(g.type)
    return g.init


# --------------------------------------------------------------------------- function bodies

META_RE = re.compile(r',\s*![A-Za-z_.0-9]+\s+![A-Za-z_.0-9{}!, ]*?(?=(,\s*![A-Za-z_.])|$)')


def strip_meta(s):
    # drop trailing ", !dbg !12, !tbaa !4" sequences and attribute group refs
    idx = s.find(', !')
    if idx >= 0:
        s = s[:idx]
    return s


def parse_body(f):
    if f.blocks is not None:
        return f.blocks
    # group lines into labelled blocks of joined instruction strings
    blocks = []
    cur = None
    first_label = str(getattr(f, 'n_anon', 0))
    cur_label = first_label
    cur = []
    blocks.append((cur_label, cur))
    for line in f.body_lines:
        if not line.strip():
            continue
        if not line.startswith(' '):
            mm = re.match(r'((?:"(?:[^"\\]|\\[0-9A-Fa-f]{2})*"|[-a-zA-Z$._0-9]+)):', line)
            if not mm:
                raise IRError('bad label line %r' % line)
            cur_label = unquote(mm.group(1))
            cur = []
            blocks.append((cur_label, cur))
            continue
        if line.startswith('  ') and not line.startswith('   ') and not line.startswith('  ]'):
            cur.append(line.strip())
        else:
            cur[-1] += ' ' + line.strip()
    if not blocks[0][1]:
        blocks.pop(0)
    out = []
    for label, ins in blocks:
        out.append((label, [parse_instr(x) for x in ins]))
    f.blocks = out
    return out


def parse_call_tail(p):
    """after opcode call/invoke: [cconv] [ret attrs] type callee(args)"""
    while p.peek()[0] == 'word' and (p.peek()[1] in FAST_MATH or p.peek()[1] in LINKAGE_WORDS):
        p.next()
    p.skip_param_attrs()
    rt = parse_type_until_global_or_local(p)
    # callee value
    if rt[0] == 'func':
        fty = rt
        callee = p.value(('ptr', fty))
        rett = fty[1]
    elif rt[0] == 'ptr' and rt[1][0] == 'func' and p.peek()[0] in ('local', 'global') and p.peek(1)[1] != '(':
        raise IRError('odd call')
    else:
        fty = None
        rett = rt
        callee = p.value(('ptr', ('func', rett, (), False)))
    p.expect('(')
    args = []
    while not p.at(')'):
        t = p.type()
        attrs = p.skip_param_attrs()
        if t == ('metadata',):
            # metadata argument (debug intrinsics) - skip tokens until , or )
            depth = 0
            while not (depth == 0 and (p.at(',') or p.at(')'))):
                v = p.next()[1]
                if v in '([{':
                    depth += 1
                elif v in ')]}':
                    depth -= 1
            args.append((t, ('undef',), attrs))
        else:
            v = p.value(t)
            args.append((t, v, attrs))
        if not p.accept(','):
            break
    p.expect(')')
    # trailing attrs / operand bundles
    groups = []
    while not p.eof() and p.peek()[1] not in ('to',):
        k, v = p.next()
        if k == 'attr':
            groups.append(v)
        elif v == '[':
            raise IRError('operand bundle')
        elif k == 'word':
            groups.append(v)
    return rett, fty, callee, args, groups


def parse_type_until_global_or_local(p):
    """return type of a call: 'T' or full function type 'T (params)' (varargs) followed by callee."""
    t = p.type_prim()
    while True:
        if p.accept('*'):
            t = ('ptr', t)
        elif p.at('('):
            # function type suffix iff the matching ')' is followed by '*' or by a callee token (%x / @x)
            depth = 0
            j = p.i
            while True:
                v = p.t[j][1]
                if v == '(':
                    depth += 1
                elif v == ')':
                    depth -= 1
                    if depth == 0:
                        break
                j += 1
            nxt = p.t[j + 1] if j + 1 < len(p.t) else ('eof', '')
            if nxt[1] == '*' or nxt[0] in ('local', 'global') or nxt[1] in ('bitcast', 'inttoptr'):
                p.next()
                params = []
                vararg = False
                while not p.at(')'):
                    if p.accept('...'):
                        vararg = True
                    else:
                        params.append(p.type())
                        p.skip_param_attrs()
                    if not p.accept(','):
                        break
                p.expect(')')
                t = ('func', t, tuple(params), vararg)
            else:
                return t
        else:
            return t


def parse_instr(s):
    s0 = s
    s = strip_meta(s)
    toks = tokenize(s)
    p = P(toks)
    res = None
    if p.peek()[0] == 'local' and p.peek(1)[1] == '=':
        res = unquote(p.next()[1][1:])
        p.next()
    k, op = p.next()
    try:
        return _parse_op(p, res, op)
    except IRError as e:
        raise IRError('%s\n   in instruction: %s' % (e, s0[:300]))


def _parse_op(p, res, op):
    I = {'op': op, 'res': res}
    if op in ('tail', 'musttail', 'notail'):
        op = p.next()[1]
        I['op'] = op
    if op in BINOPS:
        while p.peek()[1] in ('nuw', 'nsw', 'exact') or p.peek()[1] in FAST_MATH:
            p.next()
        t = p.type()
        a = p.value(t)
        p.expect(',')
        b = p.value(t)
        I.update(type=t, a=a, b=b)
        return I
    if op == 'fneg':
        while p.peek()[1] in FAST_MATH:
            p.next()
        t = p.type()
        I.update(type=t, a=p.value(t))
        return I
    if op in CASTOPS:
        t = p.type()
        v = p.value(t)
        p.expect('to')
        dt = p.type()
        I.update(op='cast', cast=op, src=(t, v), type=dt)
        return I
    if op == 'icmp' or op == 'fcmp':
        while p.peek()[1] in FAST_MATH:
            p.next()
        pred = p.next()[1]
        t = p.type()
        a = p.value(t)
        p.expect(',')
        b = p.value(t)
        I.update(pred=pred, type=t, a=a, b=b)
        return I
    if op == 'select':
        while p.peek()[1] in FAST_MATH:
            p.next()
        c = p.typed_value()
        p.expect(',')
        a = p.typed_value()
        p.expect(',')
        b = p.typed_value()
        I.update(c=c, a=a, b=b, type=a[0])
        return I
    if op == 'phi':
        while p.peek()[1] in FAST_MATH:
            p.next()
        t = p.type()
        inc = []
        while True:
            p.expect('[')
            v = p.value(t)
            p.expect(',')
            lab = unquote(p.next()[1][1:])
            p.expect(']')
            inc.append((v, lab))
            if not p.accept(','):
                break
        I.update(type=t, inc=inc)
        return I
    if op == 'alloca':
        p.accept('inalloca')
        t = p.type()
        cnt = None
        while p.accept(','):
            if p.accept('align'):
                p.next()
            elif p.peek()[1] == 'addrspace':
                raise IRError('addrspace')
            else:
                cnt = p.typed_value()
        I.update(type=('ptr', t), elem=t, count=cnt)
        return I
    if op == 'load':
        atomic = p.accept('atomic')
        vol = p.accept('volatile')
        t = p.type()
        p.expect(',')
        ptr = p.typed_value()
        I.update(type=t, ptr=ptr, atomic=atomic)
        return I
    if op == 'store':
        atomic = p.accept('atomic')
        vol = p.accept('volatile')
        v = p.typed_value()
        p.expect(',')
        ptr = p.typed_value()
        I.update(val=v, ptr=ptr, atomic=atomic)
        return I
    if op == 'getelementptr':
        p.accept('inbounds')
        bt = p.type()
        p.expect(',')
        base = p.typed_value()
        idx = []
        while p.accept(','):
            idx.append(p.typed_value())
        I.update(bt=bt, base=base, idx=idx)
        return I
    if op == 'extractvalue':
        agg = p.typed_value()
        idx = []
        while p.accept(','):
            idx.append(int(p.next()[1]))
        I.update(agg=agg, idx=idx)
        return I
    if op == 'insertvalue':
        agg = p.typed_value()
        p.expect(',')
        v = p.typed_value()
        idx = []
        while p.accept(','):
            idx.append(int(p.next()[1]))
        I.update(agg=agg, val=v, idx=idx, type=agg[0])
        return I
    if op == 'call':
        rett, fty, callee, args, groups = parse_call_tail(p)
        I.update(type=rett, fty=fty, callee=callee, args=args, groups=groups)
        return I
    if op == 'invoke':
        rett, fty, callee, args, groups = parse_call_tail(p)
        p.expect('to')
        p.expect('label')
        ok = unquote(p.next()[1][1:])
        p.expect('unwind')
        p.expect('label')
        lp = unquote(p.next()[1][1:])
        I.update(type=rett, fty=fty, callee=callee, args=args, groups=groups, ok=ok, lpad=lp)
        return I
    if op == 'landingpad':
        t = p.type()
        cleanup = False
        clauses = []
        while not p.eof():
            w = p.next()[1]
            if w == 'cleanup':
                cleanup = True
            elif w == 'catch':
                clauses.append(('catch', p.typed_value()))
            elif w == 'filter':
                clauses.append(('filter', p.typed_value()))
            else:
                raise IRError('landingpad clause %r' % w)
        I.update(type=t, cleanup=cleanup, clauses=clauses)
        return I
    if op == 'resume':
        I.update(val=p.typed_value())
        return I
    if op == 'ret':
        t = p.type()
        if t == ('void',):
            I.update(val=None)
        else:
            I.update(val=(t, p.value(t)))
        return I
    if op == 'br':
        if p.accept('label'):
            I.update(cond=None, dest=unquote(p.next()[1][1:]))
        else:
            c = p.typed_value()
            p.expect(',')
            p.expect('label')
            a = unquote(p.next()[1][1:])
            p.expect(',')
            p.expect('label')
            b = unquote(p.next()[1][1:])
            I.update(cond=c, t=a, f=b)
        return I
    if op == 'switch':
        v = p.typed_value()
        p.expect(',')
        p.expect('label')
        d = unquote(p.next()[1][1:])
        p.expect('[')
        cases = []
        while not p.at(']'):
            cv = p.typed_value()
            p.expect(',')
            p.expect('label')
            cases.append((cv, unquote(p.next()[1][1:])))
        p.expect(']')
        I.update(val=v, default=d, cases=cases)
        return I
    if op == 'unreachable':
        return I
    if op == 'freeze':
        tv = p.typed_value()
        I.update(type=tv[0], a=tv[1])
        return I
    if op == 'fence':
        return I
    if op == 'atomicrmw':
        p.accept('volatile')
        rmw = p.next()[1]
        ptr = p.typed_value()
        p.expect(',')
        v = p.typed_value()
        I.update(rmw=rmw, ptr=ptr, val=v, type=v[0])
        return I
    if op == 'cmpxchg':
        p.accept('weak')
        p.accept('volatile')
        ptr = p.typed_value()
        p.expect(',')
        c = p.typed_value()
        p.expect(',')
        nv = p.typed_value()
        I.update(ptr=ptr, cmp=c, new=nv, type=('struct', (c[0], ('int', 1)), False))
        return I
    raise IRError('unsupported instruction %r' % op)

#!/usr/bin/env python3
"""check.py <PROPERTY> [--tier quick|thorough] [--only harness[:entry]] [--keep]

Decides one property: builds every harness registered under harness/<PROPERTY>/*.json from /repo's
current working tree (clang -> llvm-link -> ir2c -> cbmc), interprets the solver verdicts, replays
counterexamples against a native build of the same IR, honours known_findings.txt and writes
evidence/<PROPERTY>.json.

exit 0: property held on everything explored (KNOWN-FINDING lines may be printed)
exit 1: VIOLATION property=<id> replay=<path> printed
exit 2: the machinery is broken (never a verdict)
"""
import sys, os, json, time, re, glob, shutil, argparse, traceback, subprocess
from concurrent.futures import ThreadPoolExecutor, as_completed
sys.path.insert(0, os.path.dirname(os.path.abspath(__file__)))
import pipeline as P
from pipeline import Broken

KNOWN = os.path.join(P.VERIF, 'known_findings.txt')


def load_known():
    out = []
    if not os.path.exists(KNOWN):
        return out
    for line in open(KNOWN):
        line = line.strip()
        if not line or line.startswith('#'):
            continue
        if line.startswith('finding:'):
            d = dict(re.findall(r'(\w+)=("(?:[^"\\]|\\.)*"|\S+)', line[len('finding:'):]))
            d = {k: (v[1:-1] if v.startswith('"') else v) for k, v in d.items()}
            out.append(d)
    return out


class HarnessBuild:
    def __init__(self, prop, specfile, work):
        self.prop = prop
        self.specfile = specfile
        self.spec = json.load(open(specfile))
        self.name = os.path.splitext(os.path.basename(specfile))[0]
        self.dir = os.path.dirname(specfile)
        self.work = os.path.join(work, self.name)
        os.makedirs(self.work, exist_ok=True)
        self.report = None
        self.times = {}
        self.variants = {}   # tuple(defines) -> (cfile, ll)

    def build(self, defines=()):
        key = tuple(sorted(defines))
        if key in self.variants:
            return self.variants[key]
        tag = ('_' + '_'.join(key)) if key else ''
        sp = self.spec
        irs = []
        t0 = time.time()
        hsrc = os.path.join(self.dir, sp['harness'])
        hll = os.path.join(self.work, 'harness%s.ll' % tag)
        jobs = [(hsrc, hll)]
        for s in sp.get('sources', []):
            src = os.path.join(P.REPO, s)
            if not os.path.exists(src):
                raise Broken('source %s does not exist in the working tree' % s)
            jobs.append((src, os.path.join(self.work, re.sub(r'[^A-Za-z0-9]', '_', s) + tag + '.ll')))
        with ThreadPoolExecutor(max_workers=8) as ex:
            futs = [ex.submit(P.compile_ir, a, b, list(key) + sp.get('defines', [])) for a, b in jobs]
            for f in futs:
                f.result()
        ll = os.path.join(self.work, 'module%s.ll' % tag)
        P.link_ir([b for a, b in jobs], ll)
        self.times['clang+link'] = round(time.time() - t0, 2)
        t0 = time.time()
        entries = [e['name'] for e in sp['entries']]
        cfile = os.path.join(self.work, 'gen%s.c' % tag)
        rep = os.path.join(self.work, 'report%s.json' % tag)
        tspec = {'replace': sp.get('replace', {}), 'c_include': [os.path.join(self.dir, c) if not os.path.exists(os.path.join(P.RT, c)) else c for c in sp.get('c_include', [])],
                 'rt_provided': sp.get('rt_provided', []), 'c_defines': sp.get('c_defines', {}), 'no_dynamic_init': sp.get('no_dynamic_init', []), 'typed_alloc': sp.get('typed_alloc', False), 'zero_allocas': sp.get('zero_allocas', False), 'allow_unmatched': sp.get('allow_unmatched', False)}
        P.translate(ll, entries, tspec, cfile, rep, sp.get('scale'))
        self.times['ir2c'] = round(time.time() - t0, 2)
        report = json.load(open(rep))
        # the functions under test must be present with their REAL bodies
        for pat in sp.get('functions_under_test', []):
            rx = re.compile(pat)
            if not any(rx.search(n) for n in report['real_bodies']):
                raise Broken('%s: function under test %r is not encoded with its real body' % (self.name, pat))
        if not key:
            self.report = report
        self.variants[key] = (cfile, ll)
        return cfile, ll


def classify(res):
    """returns (real_failures, proved_witnesses, n_ok, n_witness_ok)"""
    fails, vac, ok, wit = [], [], 0, 0
    # CBMC reports properties that symex never reached (e.g. exception clean-up code of a call that cannot throw) as
    # UNKNOWN when the run contains real failures, and as SUCCESS otherwise; such a property has no trace by construction.
    any_failure = any(p['status'] == 'FAILURE' and not (p['desc'] or '').startswith('WITNESS:') for p in res['props'])
    for p in res['props']:
        desc = p['desc'] or ''
        if desc.startswith('WITNESS:'):
            if p['status'] == 'FAILURE':
                wit += 1
            else:
                vac.append(p)
        else:
            if p['status'] == 'SUCCESS':
                ok += 1
            elif p['status'] == 'FAILURE':
                fails.append(p)
            elif p['status'] == 'UNKNOWN' and any_failure:
                ok += 1
            else:
                fails.append(p)
    return fails, vac, ok, wit


def native_replay(hb, ll, entry, inputs, outdir, tag):
    """compile the very same linked IR natively (real code, harness stubs applied by forwarding) and run
    the harness entry on the counterexample inputs. Returns (status, failed_assertions, detail)."""
    os.makedirs(outdir, exist_ok=True)
    sp = hb.spec
    if sp.get('scale'):
        return 'unavailable', [], 'scaled-width harness: native replay not meaningful'
    rll = os.path.join(outdir, 'replay_%s.ll' % tag)
    inits = ','.join((hb.report or {}).get('dynamic_initialisers_run', []))
    cmd = [sys.executable, os.path.join(P.TOOLS, 'irstub.py'), ll, '-o', rll, '--spec', os.path.join(hb.work, 'gen.c.spec.json'), '--inits', inits]
    rc, so, se, dt = P.run(cmd, timeout=300)
    if rc != 0:
        return 'unavailable', [], 'irstub: ' + se[-800:]
    exe = os.path.join(outdir, 'replay_%s' % tag)
    drv = os.path.join(outdir, 'drv_%s.c' % tag)
    open(drv, 'w').write('void %s(void);\nvoid ir2c_global_init_native(void);\nint replay_finish(void);\nint main(void){ ir2c_global_init_native(); %s(); return replay_finish(); }\n' % (entry, entry))
    extra = []
    for c in sp.get('native_c', []):
        extra.append(os.path.join(hb.dir, c) if os.path.exists(os.path.join(hb.dir, c)) else os.path.join(P.RT, c))
    cmd = ['clang++-14', '-O1', '-w', '-fsanitize=address', '-x', 'ir', rll, '-x', 'c', drv, os.path.join(P.RT, 'replay_rt.c')] + sum([['-x', 'c', e] for e in extra], []) + ['-lgmpxx', '-lgmp', '-lpthread', '-no-pie', '-Wl,--unresolved-symbols=ignore-all', '-o', exe]
    rc, so, se, dt = P.run(cmd, timeout=900)
    if rc != 0:
        return 'unavailable', [], 'native link failed: ' + se[-1500:]
    inp = os.path.join(outdir, 'inputs_%s.txt' % tag)
    open(inp, 'w').write('\n'.join(str(v) for v in inputs) + '\n')
    env = dict(os.environ, IR2C_INPUTS=inp)
    rc, so, se, dt = P.run([exe], timeout=120, env=env)
    failed = [f for f in re.findall(r'^REPLAY-ASSERT-FAILED: (.*)$', so + se, re.M) if not f.startswith('WITNESS:')]
    if 'REPLAY-ASSUME-FAILED' in so + se:
        if failed:
            # the runtime reports assertions only up to the first failing assumption: these failed BEFORE it, which is a
            # violation in CBMC's semantics too (a trace ends at its assertion; later inputs are absent, e.g. when one entry
            # runs several harness bodies in sequence)
            return 'reproduced', failed, 'assertion failed before the first failing assumption: ' + (so + se)[-600:]
        return 'inconsistent', failed, 'an assumption of the harness does not hold under the replayed inputs'
    if rc not in (0, 1):
        return 'crash', failed, 'native run ended with status %d: %s' % (rc, (so + se)[-700:])
    return ('reproduced' if failed else 'not-reproduced'), failed, (so + se)[-800:]


def twin_replay(hb, cfile, entry, inputs, outdir, tag):
    """scaled-width harnesses cannot run natively (the real code has 32/64-bit words): execute the generated C itself,
    compiled by clang with _BitInt for the scaled widths, on the counterexample inputs."""
    os.makedirs(outdir, exist_ok=True)
    drv = os.path.join(outdir, 'tdrv_%s.c' % tag)
    open(drv, 'w').write('void %s(void);\nextern int ir2c_assert_failed;\nint main(void){ %s(); return ir2c_assert_failed; }\n' % (entry, entry))
    exe = os.path.join(outdir, 'twin_%s' % tag)
    cmd = ['clang-14', '-O0', '-w', '-std=gnu2x', '-I', P.RT, '-I', os.path.dirname(cfile), cfile, drv, '-lm', '-o', exe]
    rc, so, se, dt = P.run(cmd, timeout=600)
    if rc != 0:
        return 'unavailable', [], 'twin build failed: ' + se[-1200:]
    inp = os.path.join(outdir, 'tinputs_%s.txt' % tag)
    open(inp, 'w').write('\n'.join(str(v) for v in inputs) + '\n')
    env = dict(os.environ, IR2C_INPUTS=inp, IR2C_VERBOSE='1')
    rc, so, se, dt = P.run([exe], timeout=120, env=env)
    failed = [f for f in re.findall(r'^ASSERT FAILED: (.*)$', so + se, re.M) if not f.startswith('WITNESS:')]
    if rc not in (0, 1):
        return 'crash', failed, 'twin run ended with status %d: %s' % (rc, (so + se)[-500:])
    return ('reproduced' if failed else 'not-reproduced'), failed, 'replayed on the clang build of the scaled translation (no native build exists at scaled width): ' + (so + se)[-400:]


def input_values(trace):
    vals = []
    for st in trace or []:
        if st.get('stepType') == 'assignment' and not st.get('hidden') and (st.get('lhs') or '').startswith('ir2c_in_'):
            v = st.get('value', {})
            b = v.get('binary')
            vals.append(int(b, 2) if b else int(re.sub(r'[^0-9-]', '', v.get('data', '0')) or 0))
    return vals


def main():
    ap = argparse.ArgumentParser()
    ap.add_argument('prop')
    ap.add_argument('--tier', default=os.environ.get('VERIF_TIER', 'quick'))
    ap.add_argument('--only')
    ap.add_argument('--keep', action='store_true')
    ap.add_argument('--jobs', type=int, default=int(os.environ.get('VERIF_JOBS', '16')))
    a = ap.parse_args()
    prop = a.prop
    tier = a.tier
    seed = int(os.environ.get('VERIF_SEED', '0'))
    t_start = time.time()
    work = P.scratch_dir(prop + '_' + tier)
    evid_path = os.path.join(P.VERIF, 'evidence', prop + '.json')
    if a.only:
        # a debugging run of a part of the check must not overwrite the evidence of the registered command
        evid_path = os.path.join(P.VERIF, 'evidence', '.partial', prop + '.json')
    os.makedirs(os.path.dirname(evid_path), exist_ok=True)
    rc = 2
    try:
        rc = decide(prop, tier, seed, work, evid_path, a, t_start)
    except Broken as e:
        print('BROKEN: %s' % e)
        rc = 2
    except Exception:
        traceback.print_exc()
        rc = 2
    finally:
        if not a.keep:
            shutil.rmtree(work, ignore_errors=True)
    sys.exit(rc)


def decide(prop, tier, seed, work, evid_path, a, t_start):
    specs = [f for f in sorted(glob.glob(os.path.join(P.HARNESS, prop, '*.json'))) if os.path.basename(f) != 'CLAIM.json']
    if not specs:
        raise Broken('no harness registered for %s' % prop)
    known = [k for k in load_known() if k.get('property') == prop]
    builds = []
    for s in specs:
        hb = HarnessBuild(prop, s, work)
        if a.only and a.only.split(':')[0] != hb.name:
            continue
        tiers = set(e.get('tier', 'quick') for e in hb.spec['entries'])
        if tier == 'quick' and 'quick' not in tiers:
            continue
        builds.append(hb)
    # build all harness modules (parallel)
    with ThreadPoolExecutor(max_workers=min(6, max(1, len(builds)))) as ex:
        futs = {ex.submit(hb.build): hb for hb in builds}
        for f in as_completed(futs):
            f.result()
    jobs = []
    for hb in builds:
        cfile, ll = hb.variants[()]
        for e in hb.spec['entries']:
            et = e.get('tier', 'quick')
            if tier == 'quick' and et != 'quick':
                continue
            if a.only and ':' in a.only and a.only.split(':')[1] != e['name']:
                continue
            jobs.append((hb, e, cfile, ll))
    results = []
    default_to = 280 if tier == 'quick' else 2400

    def runjob(job):
        hb, e, cfile, ll = job
        to = e.get('timeout', default_to)
        if tier == 'thorough':
            to = e.get('timeout_thorough', max(to, default_to))
        extra = list(e.get('cbmc_args', []))
        r = P.run_cbmc(cfile, e['name'], e.get('unwind', 8), to, extra, mem_gb=e.get('mem_gb', 24), unwindset=e.get('unwindset', []))
        return job, r

    with ThreadPoolExecutor(max_workers=a.jobs) as ex:
        for job, r in ex.map(runjob, jobs):
            results.append((job, r))

    trace_runs = {}
    violations = []
    known_hits = []
    broken = []
    inconclusive = []
    obligations = 0
    discharged = 0
    witnesses = 0
    samples = []
    per_harness = []
    solver_s = 0.0
    n_queries = 0
    replays = 0
    for (hb, e, cfile, ll), r in results:
        n_queries += 1
        solver_s += r.get('solver_s', 0.0)
        rec = {'harness': hb.name, 'entry': e['name'], 'what': e.get('what', ''), 'unwind': e.get('unwind', 8),
               'status': r['status'], 'wall_s': r['wall_s'], 'solver_s': round(r.get('solver_s', 0.0), 3),
               'sat_vars': r.get('sat_vars'), 'sat_clauses': r.get('sat_clauses'), 'sat_calls': r.get('sat_calls'), 'bounds': e.get('bounds', ''),
               'cbmc_properties': len(r['props'])}
        per_harness.append(rec)
        if r['status'] in ('timeout', 'error'):
            msg = '%s:%s %s %s' % (hb.name, e['name'], r['status'], r.get('detail', '')[:600])
            if tier == 'quick' or r['status'] == 'error':
                broken.append(msg)
            else:
                inconclusive.append(msg)
            continue
        fails, vac, ok, wit = classify(r)
        if vac and not fails:
            broken.append('%s:%s vacuous: witness proved unreachable: %s' % (hb.name, e['name'], [p['desc'] for p in vac]))
            continue
        if wit == 0 and not fails:
            broken.append('%s:%s has no reachability witness' % (hb.name, e['name']))
            continue
        witnesses += wit
        obligations += ok + len(fails)
        discharged += ok
        rec['obligations'] = ok + len(fails)
        rec['witnesses_reached'] = wit
        for p in r['props']:
            if p['status'] == 'SUCCESS' and not (p['desc'] or '').startswith('WITNESS') and len(samples) < 12 and 'assertion' in (p['name'] or ''):
                samples.append({'harness': hb.name, 'entry': e['name'], 'obligation': p['desc'], 'verdict': 'holds for all inputs within bounds (UNSAT)'})
        if not fails:
            continue
        # ---- counterexamples: group by assertion, check known findings, replay
        for p in fails:
            desc = p['desc'] or ''
            kf = [k for k in known if k.get('harness') == hb.name and k.get('entry') == e['name'] and k.get('assertion') == desc]
            if kf:
                k = kf[0]
                # re-run with the listed input class excluded: everything else must still hold
                define = k.get('exclude_define')
                if not define:
                    broken.append('known finding without exclude_define: %s' % k)
                    continue
                cfile2, ll2 = hb.build((define,))
                r2 = P.run_cbmc(cfile2, e['name'], e.get('unwind', 8), e.get('timeout', default_to), list(e.get('cbmc_args', [])), unwindset=e.get('unwindset', []))
                n_queries += 1
                solver_s += r2.get('solver_s', 0.0)
                if r2['status'] in ('timeout', 'error'):
                    broken.append('%s:%s (known finding excluded) %s' % (hb.name, e['name'], r2['status']))
                    continue
                f2, v2, ok2, w2 = classify(r2)
                if v2 or w2 == 0:
                    broken.append('%s:%s vacuous after excluding known finding' % (hb.name, e['name']))
                    continue
                still = [q for q in f2 if (q['desc'] or '') == desc]
                if not still:
                    known_hits.append((k, hb.name, e['name'], desc))
                    discharged += 1
                    continue
                # a different violation of the same assertion: fall through to replay with the excluded build
                cf_use, ll_use, tagdef = cfile2, ll2, (define,)
            else:
                cf_use, ll_use, tagdef = cfile, ll, ()
            # trace for this property
            # (property ids are not stable across option sets, so the whole entry is re-run with traces once and
            #  the counterexample is picked by description + function)
            tkey = (hb.name, e['name'], tagdef)
            if tkey not in trace_runs:
                trace_runs[tkey] = P.run_cbmc(cf_use, e['name'], e.get('unwind', 8), e.get('timeout', default_to),
                                              list(e.get('cbmc_args', [])) + ['--trace'], unwindset=e.get('unwindset', []))
            rt = trace_runs[tkey]
            trace = None
            for exact in (True, False):
                for q in rt['props']:
                    same = (q['desc'] == p['desc']) if exact else ((q['desc'] or '').split(':')[0] == (p['desc'] or '').split(':')[0])
                    if same and q['loc'] == p['loc'] and q['status'] == 'FAILURE' and q.get('trace'):
                        trace = q['trace']
                        break
                if trace is not None:
                    break
            if trace is None:
                broken.append('%s:%s could not regenerate trace for %s' % (hb.name, e['name'], p['name']))
                continue
            inputs = input_values(trace)
            rdir = os.path.join(P.VERIF, 'replay', prop)
            tag = re.sub(r'[^A-Za-z0-9]+', '_', '%s_%s_%s' % (hb.name, e['name'], p['name']))[-80:]
            os.makedirs(rdir, exist_ok=True)
            is_model_check = not ('assertion' in (p['name'] or ''))
            if hb.spec.get('scale') or hb.spec.get('replay') == 'twin':
                status, failed, detail = twin_replay(hb, cf_use, e['name'], inputs, os.path.join(work, 'replay'), tag)
            else:
                status, failed, detail = native_replay(hb, ll_use, e['name'], inputs, os.path.join(work, 'replay'), tag)
            replays += 1
            rp = os.path.join(rdir, tag + '.json')
            json.dump({'property': prop, 'harness': hb.name, 'entry': e['name'], 'assertion': desc, 'cbmc_property': p['name'],
                       'inputs': inputs, 'native_replay': status, 'native_failed_assertions': failed, 'detail': detail,
                       'how_to_replay': 'python3 tools/check.py %s --only %s:%s --keep  (inputs are the nondet_* return values in call order)' % (prop, hb.name, e['name'])},
                      open(rp, 'w'), indent=1)
            if status == 'crash' and (is_model_check or desc.startswith('ubsan:') or desc.startswith('llvm.trap') or 'abort' in desc or 'terminate' in desc):
                # trap / sanitizer report / abort in the native build of the real code = the violation itself
                violations.append((hb.name, e['name'], desc, rp))
            elif status == 'reproduced' and (desc in failed or is_model_check):
                violations.append((hb.name, e['name'], desc, rp))
            elif status == 'reproduced':
                violations.append((hb.name, e['name'], desc + ' [native replay failed: %s]' % failed[:2], rp))
            elif status == 'unavailable' and e.get('trust_without_replay'):
                violations.append((hb.name, e['name'], desc + ' [native replay unavailable: %s]' % detail[:200], rp))
            else:
                broken.append('%s:%s counterexample for "%s" did not replay natively (%s: %s): model/stub/translator suspect' % (hb.name, e['name'], desc, status, detail[:300]))

    real_fns = sorted(set(sum([hb.report['real_bodies'] for hb in builds if hb.report], [])))
    stubs = {}
    for hb in builds:
        if hb.report:
            stubs.update(hb.report['replaced'])
    evid = {
        'property_id': prop, 'tier': tier, 'seed': seed, 'level': 'model_checking',
        'coverage': {
            'evaluations': max(1, obligations + witnesses),
            'distinct_nontrivial': max(0, obligations),
            'rule': 'one evaluation = one CBMC property (assertion, memory-safety, ubsan-trap, division, unwinding) decided by the SAT/SMT back end over ALL inputs within the stated bounds, plus reachability witnesses; distinct_nontrivial counts the non-witness obligations of harnesses whose every witness was reached',
            'samples': samples or [{'note': 'no assertion-level obligation discharged'}],
            'obligations': obligations, 'discharged': discharged, 'witnesses_reached': witnesses,
            'solver_queries': n_queries, 'solver_time_s': round(solver_s, 2),
            'functions_encoded_real_bodies': real_fns[:400], 'n_functions_encoded': len(real_fns),
            'stubs_and_replacements': stubs, 'harness_runs': per_harness,
            'inconclusive': inconclusive, 'counterexamples_replayed': replays,
            'known_findings_hit': [k[0].get('what', '') for k in known_hits],
            'regenerated_from': P.REPO + ' working tree at check time (clang++-14 -> llvm-link -> ir2c -> cbmc)',
        },
        'assumptions': sorted(set(sum([hb.spec.get('assumptions', []) for hb in builds], []))) + [
            'bounded: every loop unwound to the per-entry bound with --unwinding-assertions; sizes as stated per harness',
            'trusted base: clang-14 lowering, tools/ir2c.py, rt/*.c runtime models, cbmc 6.11',
            'allocation never fails (operator new / malloc assumed non-null)'],
        'wall_s': round(time.time() - t_start, 2),
        'violations': len(violations),
    }
    json.dump(evid, open(evid_path, 'w'), indent=1)
    for k, hn, en, desc in known_hits:
        print('KNOWN-FINDING: property=%s %s [%s:%s "%s"]' % (prop, k.get('what', ''), hn, en, desc))
    if broken:
        for b in broken:
            print('BROKEN: ' + b)
        return 2
    for hn, en, desc, rp in violations:
        print('VIOLATION property=%s replay=%s   (%s:%s "%s")' % (prop, rp, hn, en, desc))
    for m in inconclusive:
        print('INCONCLUSIVE: ' + m)
    print('%s %s: %d obligations, %d discharged, %d witnesses, %d queries, %.1fs' % (prop, tier, obligations, discharged, witnesses, n_queries, time.time() - t_start))
    return 1 if violations else 0


if __name__ == '__main__':
    main()

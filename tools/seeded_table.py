#!/usr/bin/env python3
"""seeded_table.py -- markdown table of the seeded changes under /verif/seeded (for DESIGN.md section 9.5)"""
import json, os, glob, re
rows = []
for d in sorted(glob.glob('/verif/seeded/*/meta.json'), key=lambda p: (re.findall(r'C\d+', p)[0], p)):
    m = json.load(open(d)); sid = os.path.basename(os.path.dirname(d))
    first = (m.get('needs_to_manifest') or '').strip().split('\n')[0]
    first = re.sub(r'^C\d+\s*/\s*change\s*\d+\s*-+\s*', '', first)[:150]
    rows.append('| %s | %s | %s | %s | %s |' % (sid, ', '.join('`%s`' % os.path.basename(f) for f in m.get('files_touched', [])), first.replace('|', '/'),
                                              m.get('check_result', '').replace('|', '/'), (m.get('detail') or '').replace('|', '/')[:260]))
print('| seed | file | change | result | by which check / why missed |\n|---|---|---|---|---|')
print('\n'.join(rows))

#!/bin/bash
# usage: seedtest.sh <patch.diff> <PROP> [check.py args]  -- applies the patch in the scratch worktree /tmp/mutwt and runs the check against it
p=$1; prop=$2; shift 2
cd ${MUTWT:-/tmp/mutwt} && git checkout -q -- . && git apply "$p" || { echo "PATCH DOES NOT APPLY"; exit 3; }
cd /verif && VERIF_REPO=${MUTWT:-/tmp/mutwt} VERIF_SCRATCH=/tmp/mutwork_$prop timeout 1500 python3 tools/check.py $prop "$@" 2>&1 | cut -c1-220 | grep -E "VIOLATION|BROKEN|obligations|INCONCL" | head -8
echo "exit=${PIPESTATUS[0]}"
cd ${MUTWT:-/tmp/mutwt} && git checkout -q -- .
rm -rf /tmp/mutwork_$prop

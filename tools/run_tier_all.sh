#!/bin/bash
# usage: run_tier_all.sh <quick|thorough> [jobs]   -- runs every claimed check of MANIFEST.json in sequence and prints one line per property
tier=${1:-quick}; jobs=${2:-8}
cd "$(dirname "$0")/.."
for p in $(python3 -c "import json; print(' '.join(c['property_id'] for c in json.load(open('MANIFEST.json'))['checks']))"); do
  s=$(date +%s); out=$(python3 tools/check.py $p --tier $tier --jobs $jobs 2>&1 | grep -E "VIOLATION|BROKEN|INCONCLUSIVE|obligations" | cut -c1-220 | tail -4); echo "$p [$(( $(date +%s) - s )) s] $out"
done

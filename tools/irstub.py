#!/usr/bin/env python3
"""irstub: apply a harness's function replacements to a linked LLVM module so that the *same IR* that
was model-checked can be compiled natively for counterexample replay.
Each replaced function keeps its symbol but gets a forwarding body that calls the stub."""
import sys, os, re, json, argparse
sys.path.insert(0, os.path.dirname(os.path.abspath(__file__)))
from irparse import *
import ir2c


def tstr(t):
    k = t[0]
    if k == 'void':
        return 'void'
    if k == 'int':
        return 'i%d' % t[1]
    if k == 'fp':
        return t[1]
    if k == 'ptr':
        return tstr(t[1]) + '*'
    if k == 'named':
        n = t[1]
        return '%' + (n if re.fullmatch(r'[-a-zA-Z$._0-9]+', n) else '"%s"' % n)
    if k == 'array':
        return '[%d x %s]' % (t[1], tstr(t[2]))
    if k == 'struct':
        inner = ', '.join(tstr(x) for x in t[1])
        s = '{ %s }' % inner if inner else '{}'
        return '<%s>' % s if t[2] else s
    if k == 'func':
        ps = [tstr(x) for x in t[2]] + (['...'] if t[3] else [])
        return '%s (%s)' % (tstr(t[1]), ', '.join(ps))
    raise IRError('tstr %r' % (t,))


def zero(t):
    k = t[0]
    if k == 'int':
        return '0'
    if k == 'fp':
        return '0.0'
    if k == 'ptr':
        return 'null'
    return 'zeroinitializer'


def gref(name):
    return '@' + (name if re.fullmatch(r'[-a-zA-Z$._0-9]+', name) else '"%s"' % name)


def main():
    ap = argparse.ArgumentParser()
    ap.add_argument('module')
    ap.add_argument('-o', required=True)
    ap.add_argument('--spec', required=True)
    ap.add_argument('--inits', default='')
    a = ap.parse_args()
    text = open(a.module).read()
    mod = parse_module(text)
    spec = json.load(open(a.spec))
    rep = ir2c.build_replace(mod, spec)
    lines = text.split('\n')
    out = []
    extra_decl = []
    i = 0
    done = set()
    renamed = {}
    while i < len(lines):
        line = lines[i]
        if line.startswith('define') or line.startswith('declare'):
            f = parse_header(line, line.startswith('define'))
            if f.name in rep and f.vararg and not line.startswith('define'):
                out.append(line)      # vararg library function: the native build keeps the real one
                i += 1
                continue
            if f.name in rep:
                tgt = rep[f.name]
                done.add(f.name)
                is_def = line.startswith('define')
                if is_def:
                    j = i
                    while lines[j] != '}':
                        j += 1
                    i = j + 1
                else:
                    i += 1
                # header: reuse return/param types, fresh param names
                ps = ', '.join('%s %%p%d' % (tstr(t), k) for k, (t, n, at) in enumerate(f.params))
                if f.vararg:
                    # a DEFINED vararg member (notify_formatted): forward the fixed parameters only (stubs of such functions ignore the rest)
                    if not line.startswith('define') or (tgt not in mod.functions and tgt not in ('!noop', '!unreachable')):
                        raise IRError('cannot forward vararg function %s' % f.name)
                    ps += ', ...'
                defname = f.name
                if not is_def:
                    # a library function (malloc, read, ...): never redefine the symbol natively, redirect the call sites
                    defname = f.name + '.ir2cstub'
                    renamed[f.name] = defname
                hdr = 'define %s %s(%s) {' % (tstr(f.ret), gref(defname), ps)
                body = []
                if tgt == '!noop':
                    body.append('  ret void' if f.ret == ('void',) else '  ret %s %s' % (tstr(f.ret), zero(f.ret)))
                elif tgt == '!unreachable':
                    body.append('  call void @abort()')
                    body.append('  unreachable')
                    extra_decl.append('declare void @abort()')
                elif tgt == '!havoc':
                    if f.ret[0] != 'int':
                        raise IRError('havoc of non-int')
                    n = ir2c.int_store_bits(f.ret[1])
                    body.append('  %%h = call i%d @nondet_u%d()' % (n, n))
                    extra_decl.append('declare i%d @nondet_u%d()' % (n, n))
                    if n != f.ret[1]:
                        body.append('  %%h2 = trunc i%d %%h to i%d' % (n, f.ret[1]))
                        body.append('  ret i%d %%h2' % f.ret[1])
                    else:
                        body.append('  ret i%d %%h' % n)
                else:
                    if tgt in mod.functions:
                        sf = mod.functions[tgt]
                        args = []
                        for k, ((t, n, at), (st, sn, sat)) in enumerate(zip(f.params, sf.params)):
                            if t == st:
                                args.append('%s %%p%d' % (tstr(st), k))
                            elif t[0] == 'ptr' and st[0] == 'ptr':
                                body.append('  %%c%d = bitcast %s %%p%d to %s' % (k, tstr(t), k, tstr(st)))
                                args.append('%s %%c%d' % (tstr(st), k))
                            else:
                                raise IRError('stub %s param %d type differs' % (tgt, k))
                        rt = sf.ret
                    else:
                        # C-level stub: same signature, external symbol
                        args = ['%s %%p%d' % (tstr(t), k) for k, (t, n, at) in enumerate(f.params)]
                        rt = f.ret
                        extra_decl.append('declare %s %s(%s)' % (tstr(f.ret), gref(tgt), ', '.join(tstr(t) for t, n, at in f.params)))
                    if tgt in mod.functions and mod.functions[tgt].vararg:
                        fty = ' (%s, ...)' % ', '.join(tstr(st) for st, sn, sat in mod.functions[tgt].params)
                    else:
                        fty = ''
                    if rt == ('void',):
                        body.append('  call void%s %s(%s)' % (fty, gref(tgt), ', '.join(args)))
                        body.append('  ret void')
                    else:
                        body.append('  %%r = call %s%s %s(%s)' % (tstr(rt), fty, gref(tgt), ', '.join(args)))
                        if rt == f.ret:
                            body.append('  ret %s %%r' % tstr(rt))
                        elif rt[0] == 'ptr' and f.ret[0] == 'ptr':
                            body.append('  %%r2 = bitcast %s %%r to %s' % (tstr(rt), tstr(f.ret)))
                            body.append('  ret %s %%r2' % tstr(f.ret))
                        else:
                            raise IRError('stub %s return type differs' % tgt)
                out.append(hdr)
                out.extend(body)
                out.append('}')
                continue
        if line.startswith('@llvm.global_ctors'):
            # the replay runs exactly the dynamic initialisers that the model ran (see ir2c_global_init)
            i += 1
            continue
        out.append(line)
        i += 1
    inits = [x for x in a.inits.split(',') if x]
    out.append('define void @ir2c_global_init_native() {')
    for n in inits:
        hdr = [l for l in lines if l.startswith('define') and ('@%s(' % n in l or '@"%s"(' % n in l)]
        cc = 'fastcc ' if hdr and ' fastcc ' in hdr[0] else ''
        out.append('  call %svoid %s()' % (cc, gref(n)))
    out.append('  ret void')
    out.append('}')
    declared = set(mod.functions.keys())
    for d in sorted(set(extra_decl)):
        nm = re.search(r'@([\w.]+)\(', d).group(1)
        if nm not in declared:
            out.append(d)
    text_out = '\n'.join(out)
    for old, new in renamed.items():
        text_out = re.sub(r'@%s(?=[(, )])' % re.escape(old), lambda m: gref(new), text_out)
    open(a.o, 'w').write(text_out)


if __name__ == '__main__':
    try:
        main()
    except IRError as e:
        sys.stderr.write('irstub: ERROR: %s\n' % e)
        sys.exit(2)

#!/usr/bin/env python3
"""Regenerate MANIFEST.json from tools/claims.json (one record per property) and the harness directory."""
import json, os, glob
V = os.path.dirname(os.path.dirname(os.path.abspath(__file__)))
claims = json.load(open(os.path.join(V, 'tools', 'claims.json')))
props = [json.loads(l)['id'] for l in open(os.path.join(V, 'properties.jsonl'))]
checks, na = [], []
for pid in props:
    c = dict(claims.get(pid, {}))
    cf = os.path.join(V, 'harness', pid, 'CLAIM.json')
    if os.path.exists(cf):
        c.update(json.load(open(cf)))
    hs = [f for f in sorted(glob.glob(os.path.join(V, 'harness', pid, '*.json'))) if os.path.basename(f) != 'CLAIM.json']
    has = bool(hs)
    if c.get('claimed') and has:
        specs = [json.load(open(f)) for f in hs]
        thorough = any(e.get('tier') == 'thorough' for s in specs for e in s['entries'])
        rec = {
            'property_id': pid,
            'quick_cmd': 'python3 tools/check.py %s --tier quick' % pid,
            'thorough_cmd': 'python3 tools/check.py %s --tier thorough' % pid,
            'evidence_file': 'evidence/%s.json' % pid,
            'replay_cmd_template': 'python3 tools/check.py %s --only {path} --keep' % pid,
            'engine': 'ir2c+cbmc',
            'level_claimed': {'category': 'model_checking', 'text': c['level_text'], 'design_ref': c.get('design_ref', 'DESIGN.md section 3 / ' + pid)},
            'level_note': c['level_note'],
            'technique': c.get('technique', 'bounded symbolic execution of the real code (clang IR -> C -> CBMC), SAT verdict over all inputs within stated bounds'),
        }
        checks.append(rec)
    else:
        na.append({'property_id': pid, 'reason': c.get('na_reason', 'no solver-based check built for this property yet')})
m = {
    'version': 1,
    'setup_cmd': 'python3 tools/setup_check.py',
    'hooks': {'guard': 'OPENSMT_VERIF_HOOKS', 'enable': 'only the C20 buffer-growth harness (harness/C20/pipe_grow.json) compiles src/api/Interpret.cc with -DOPENSMT_VERIF_HOOKS -DOPENSMT_VERIF_PIPE_BUFFER_SIZE=4 (interpPipe then starts with a 4-byte line buffer); every other harness reaches private state with -fno-access-control and chooses stubs at IR level, without source hooks',
              'baseline_off_cmd': 'cmake --build /repo/_build -j16 && ctest --test-dir /repo/_build -j8 --timeout 900', 'source_commits': ['f8dfb01'], 'add_only': True},
    'engines': [{'name': 'ir2c+cbmc', 'path': 'tools/check.py', 'serves_properties': [c['property_id'] for c in checks],
                 'kind_free_text': 'clang++-14 lowers the real translation units to LLVM IR, tools/ir2c.py translates the IR to C, cbmc 6.11 decides the harness assertions by SAT; counterexamples are replayed on a native build of the same IR'}],
    'checks': checks,
    'not_applicable': na,
    'notes': 'Every check regenerates its encoding from /repo working tree. Exit 2 = machinery broken (never a verdict). See DESIGN.md and tools/README.md.',
}
json.dump(m, open(os.path.join(V, 'MANIFEST.json'), 'w'), indent=1)
print('claimed:', [c['property_id'] for c in checks])
print('not applicable:', [n['property_id'] for n in na])
